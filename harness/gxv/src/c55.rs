//! C55 Worktree streams and archives contain exactly the tree.
//!
//! One case = a random tree written with `git fast-import` (nested directories, empty files, files with sizes around
//! the 65535-byte stream buffer and its multiples, executables, symlinks, submodule entries, long paths (>100 bytes),
//! unicode and - for tar - non-UTF-8 names, optionally a `.gitattributes` with `*.txt text eol=crlf`) plus 0..3
//! caller-supplied additional entries (in memory and from a path on disk: file, executable, symlink, directory).
//!
//! Observed: (1) `gix::Repository::worktree_stream(tree)` entries read to the end with random buffer sizes;
//! (2) `gix_archive::write_stream[_seek]` output as tar, tar.gz and zip, listed by an independent reader (a persistent
//! `/usr/bin/python3` process using tarfile/zipfile/hashlib).
//! Oracles: the model list {(path, kind, filtered content)} of the tree (each blob/executable/symlink exactly once,
//! additional entries after the tree's entries in order of addition) and `git archive --format=tar|zip` of the same
//! tree listed by the same reader (same files: path, file/symlink, executable bit, content).
use crate::fw::{self, guard, Ctx, Rng};
use bstr::{BString, ByteSlice};
use gix_object::tree::EntryKind;
use serde_json::{json, Value};
use std::collections::BTreeMap;
use std::io::{BufRead, BufReader, Read, Write};
use std::path::{Path, PathBuf};
use std::process::{Child, ChildStdin, ChildStdout, Command, Stdio};

pub fn child(_mode: &str) {}

const STREAM_BUF: usize = u16::MAX as usize;

const PY_READER: &str = r#"
import sys, tarfile, zipfile, hashlib, json, stat
i = sys.stdin.buffer
o = sys.stdout
def se(s):
    return s.encode('utf-8', 'surrogateescape')
while True:
    line = i.readline()
    if not line:
        break
    kind, path = line.rstrip(b'\n').split(b' ', 1)
    path = path.decode()
    out = []
    try:
        if kind == b'T':
            with tarfile.open(path, 'r:*', encoding='utf-8', errors='surrogateescape') as tf:
                for m in tf:
                    if m.isreg():
                        data = tf.extractfile(m).read(); t = 'f'
                    elif m.issym():
                        data = se(m.linkname); t = 'l'
                    elif m.isdir():
                        data = b''; t = 'd'
                    elif m.islnk():
                        data = se(m.linkname); t = 'h'
                    else:
                        data = b''; t = 'o'
                    out.append([se(m.name).hex(), t, m.mode, len(data), hashlib.sha1(data).hexdigest()])
        else:
            with zipfile.ZipFile(path) as zf:
                bad = zf.testzip()
                if bad is not None:
                    raise Exception('crc error in ' + repr(bad))
                for zi in zf.infolist():
                    mode = zi.external_attr >> 16
                    data = zf.read(zi)
                    raw = zi.filename.encode('utf-8', 'surrogateescape') if (zi.flag_bits & 0x800) else zi.filename.encode('cp437', 'replace')
                    if stat.S_ISLNK(mode):
                        t = 'l'
                    elif zi.is_dir():
                        t = 'd'
                    else:
                        t = 'f'
                    out.append([raw.hex(), t, mode & 0o7777, len(data), hashlib.sha1(data).hexdigest()])
        o.write(json.dumps({'ok': True, 'entries': out}) + '\n')
    except Exception as e:
        o.write(json.dumps({'ok': False, 'error': repr(e)}) + '\n')
    o.flush()
"#;

struct Py {
    child: Child,
    stdin: ChildStdin,
    stdout: BufReader<ChildStdout>,
}
impl Py {
    fn start(dir: &Path) -> Result<Py, String> {
        let script = dir.join("reader.py");
        std::fs::write(&script, PY_READER).map_err(|e| e.to_string())?;
        let mut child = Command::new("/usr/bin/python3")
            .env_clear()
            .env("PATH", "/usr/bin:/bin")
            .arg("-u")
            .arg(&script)
            .stdin(Stdio::piped())
            .stdout(Stdio::piped())
            .stderr(Stdio::null())
            .spawn()
            .map_err(|e| format!("python3 spawn failed: {e}"))?;
        let stdin = child.stdin.take().unwrap();
        let stdout = BufReader::new(child.stdout.take().unwrap());
        Ok(Py { child, stdin, stdout })
    }
    /// Ok(Ok(entries)) / Ok(Err(reader complaint)) / Err(tool failure)
    fn list(&mut self, kind: char, path: &Path) -> Result<Result<Vec<Listed>, String>, String> {
        self.stdin
            .write_all(format!("{} {}\n", kind, path.display()).as_bytes())
            .and_then(|_| self.stdin.flush())
            .map_err(|e| format!("python pipe write: {e}"))?;
        let mut line = String::new();
        let n = self.stdout.read_line(&mut line).map_err(|e| format!("python pipe read: {e}"))?;
        if n == 0 {
            return Err("python reader closed its output".into());
        }
        let v: Value = serde_json::from_str(&line).map_err(|e| format!("python reader answer unparsable: {e}"))?;
        if v["ok"].as_bool() != Some(true) {
            return Ok(Err(v["error"].as_str().unwrap_or("?").to_string()));
        }
        let mut out = Vec::new();
        for e in v["entries"].as_array().cloned().unwrap_or_default() {
            out.push(Listed {
                path: unhex(e[0].as_str().unwrap_or("")),
                typ: e[1].as_str().unwrap_or("?").chars().next().unwrap_or('?'),
                mode: e[2].as_u64().unwrap_or(0) as u32,
                len: e[3].as_u64().unwrap_or(0) as usize,
                sha1: e[4].as_str().unwrap_or("").to_string(),
            });
        }
        Ok(Ok(out))
    }
}
impl Drop for Py {
    fn drop(&mut self) {
        let _ = self.child.kill();
        let _ = self.child.wait();
    }
}
fn unhex(s: &str) -> Vec<u8> {
    (0..s.len() / 2).filter_map(|i| u8::from_str_radix(&s[2 * i..2 * i + 2], 16).ok()).collect()
}

#[derive(Clone, Debug)]
struct Listed {
    path: Vec<u8>,
    typ: char, // f l d h o
    mode: u32,
    len: usize,
    sha1: String,
}

#[derive(Clone, Copy, PartialEq, Eq, Debug, Hash)]
enum K {
    File,
    Exec,
    Link,
    Sub,
    Dir, // only additional entries
}
impl K {
    fn label(self) -> &'static str {
        match self {
            K::File => "file",
            K::Exec => "exec",
            K::Link => "link",
            K::Sub => "submodule",
            K::Dir => "dir",
        }
    }
}

#[derive(Clone)]
struct Ent {
    path: Vec<u8>,
    kind: K,
    raw: Vec<u8>,
    /// worktree (filtered) content
    want: Vec<u8>,
    size_class: &'static str,
}

fn quote_path(p: &[u8]) -> String {
    let mut s = String::from("\"");
    for &b in p {
        match b {
            b'"' => s.push_str("\\\""),
            b'\\' => s.push_str("\\\\"),
            0x20..=0x7e => s.push(b as char),
            _ => s.push_str(&format!("\\{:03o}", b)),
        }
    }
    s.push('"');
    s
}

fn gen_size(r: &mut Rng, thorough: bool) -> (usize, &'static str) {
    let w = r.below(100);
    if w < 12 {
        (0, "empty")
    } else if w < 50 {
        (r.range(1, 300) as usize, "small")
    } else if w < 62 {
        (r.range(301, 20_000) as usize, "medium")
    } else if w < 80 {
        let k = r.range(1, 3) as usize;
        (k * STREAM_BUF + r.range(0, 2) as usize - 1, "k*65535±1")
    } else if w < 90 {
        let k = r.range(1, 2) as usize;
        (k * 65536 + r.range(0, 2) as usize - 1, "k*65536±1")
    } else if w < 97 || !thorough {
        (r.range(20_001, 200_000) as usize, "large")
    } else {
        (r.range(200_001, 1_500_000) as usize, "huge")
    }
}

fn gen_name(r: &mut Rng, allow_non_utf8: bool) -> Vec<u8> {
    let base: &[&str] = &["a", "b", "dir", "src", "x y", "ü", "日本", "Makefile", "file.txt", "note.txt", "data.bin", "-dash", "a=b", "semi;colon", "q'uote", "tab\there", "UP", "up"];
    let mut n: Vec<u8> = r.pick(base).as_bytes().to_vec();
    match r.below(12) {
        0 => n.extend_from_slice(format!("{}", r.below(1000)).as_bytes()),
        1 => {
            // long component
            let l = r.range(60, 120) as usize;
            n.extend(std::iter::repeat(b'L').take(l));
        }
        2 if allow_non_utf8 => n.extend_from_slice(&[0xff, 0xfe, b'z']),
        3 => n.extend_from_slice(b".txt"),
        _ => {}
    }
    n
}

struct Tree {
    ents: Vec<Ent>,
    has_eol_attr: bool,
    non_utf8: bool,
    long_paths: bool,
}

fn gen_tree(r: &mut Rng, thorough: bool, max_links: usize) -> Tree {
    let allow_non_utf8 = r.chance(1, 5);
    let has_eol_attr = r.chance(1, 4);
    let n = r.range(1, if thorough { 24 } else { 14 }) as usize;
    let mut dirs: Vec<Vec<u8>> = vec![vec![]];
    let mut used: BTreeMap<Vec<u8>, bool> = BTreeMap::new(); // path -> is_dir
    let mut ents = Vec::new();
    if has_eol_attr {
        let c = b"*.txt text eol=crlf\n*.bin -text\n".to_vec();
        used.insert(b".gitattributes".to_vec(), false);
        ents.push(Ent { path: b".gitattributes".to_vec(), kind: K::File, raw: c.clone(), want: c, size_class: "small" });
    }
    for _ in 0..n {
        // choose directory, maybe a new one
        let mut dir = r.pick(&dirs).clone();
        if r.chance(1, 3) && dir.iter().filter(|b| **b == b'/').count() < 4 {
            let mut d = dir.clone();
            if !d.is_empty() {
                d.push(b'/');
            }
            d.extend(gen_name(r, allow_non_utf8));
            if used.get(&d) == Some(&false) {
                continue;
            }
            used.insert(d.clone(), true);
            dirs.push(d.clone());
            dir = d;
        }
        let mut path = dir.clone();
        if !path.is_empty() {
            path.push(b'/');
        }
        path.extend(gen_name(r, allow_non_utf8));
        if used.contains_key(&path) {
            continue;
        }
        used.insert(path.clone(), false);
        let mut kind = match r.below(10) {
            0..=4 => K::File,
            5 | 6 => K::Exec,
            7 | 8 => K::Link,
            _ => K::Sub,
        };
        if kind == K::Link && ents.iter().filter(|e: &&Ent| e.kind == K::Link).count() >= max_links {
            kind = K::File;
        }
        let (raw, want, size_class): (Vec<u8>, Vec<u8>, &'static str) = match kind {
            K::Link => {
                let mut t: Vec<u8> = match r.below(4) {
                    0 => b"../target".to_vec(),
                    1 => gen_name(r, allow_non_utf8),
                    2 => b"/abs/olute/path".to_vec(),
                    _ => {
                        // long target (> 100 bytes)
                        let mut t = b"deep/".to_vec();
                        t.extend(std::iter::repeat(b't').take(r.range(100, 180) as usize));
                        t
                    }
                };
                if t.is_empty() {
                    t = b"x".to_vec();
                }
                (t.clone(), t, "link-target")
            }
            K::Sub => (r.bytes(20), vec![], "submodule"),
            _ => {
                let (len, sc) = gen_size(r, thorough);
                let is_txt = path.ends_with(b".txt");
                if is_txt || r.bool() {
                    // LF-only text
                    let mut d = Vec::with_capacity(len);
                    while d.len() < len {
                        d.extend_from_slice(r.pick(&["line one", "fn main() {}", "", "some more text here", "x"]).as_bytes());
                        d.push(b'\n');
                    }
                    d.truncate(len);
                    let want = if has_eol_attr && is_txt { d.replace(b"\n", b"\r\n") } else { d.clone() };
                    (d, want, sc)
                } else {
                    let mut d = Vec::with_capacity(len + 8);
                    while d.len() < len {
                        d.extend_from_slice(&r.next_u64().to_le_bytes());
                    }
                    d.truncate(len);
                    (d.clone(), d, sc)
                }
            }
        };
        ents.push(Ent { path, kind, raw, want, size_class });
    }
    if !ents.iter().any(|e| e.kind != K::Sub) {
        ents.push(Ent { path: b"only".to_vec(), kind: K::File, raw: b"x\n".to_vec(), want: b"x\n".to_vec(), size_class: "small" });
    }
    let non_utf8 = ents.iter().any(|e| std::str::from_utf8(&e.path).is_err() || (e.kind == K::Link && std::str::from_utf8(&e.raw).is_err()));
    let long_paths = ents.iter().any(|e| e.path.len() > 100);
    Tree { ents, has_eol_attr, non_utf8, long_paths }
}

/// write the tree through fast-import, returns the tree id (hex)
fn import_tree(repo: &Path, tree: &Tree, serial: u64) -> Result<String, String> {
    let mut s: Vec<u8> = Vec::new();
    s.extend_from_slice(format!("commit refs/heads/c{serial}\nmark :1\ncommitter a <a@example.com> 1700000000 +0000\ndata 1\nx\n").as_bytes());
    for e in &tree.ents {
        match e.kind {
            K::Sub => s.extend_from_slice(format!("M 160000 {} {}\n", fw::hex(&e.raw), quote_path(&e.path)).as_bytes()),
            _ => {
                let mode = match e.kind {
                    K::File => "100644",
                    K::Exec => "100755",
                    _ => "120000",
                };
                s.extend_from_slice(format!("M {} inline {}\ndata {}\n", mode, quote_path(&e.path), e.raw.len()).as_bytes());
                s.extend_from_slice(&e.raw);
                s.push(b'\n');
            }
        }
    }
    s.extend_from_slice(b"\nls :1 \"\"\n");
    let o = fw::git::run_in(repo, &["fast-import", "--quiet"], &s).map_err(|e| format!("fast-import spawn: {e}"))?;
    if !o.ok {
        return Err(format!("fast-import failed: {}", o.err_text()));
    }
    let t = o.text();
    // "040000 tree <sha>\t"
    t.split_whitespace().nth(2).filter(|h| h.len() == 40).map(str::to_string).ok_or_else(|| format!("unexpected ls answer {t:?}"))
}

#[derive(Clone)]
struct Extra {
    path: Vec<u8>,
    kind: K,
    want: Vec<u8>,
    /// Some(path on disk) -> add_entry_from_path, None -> in-memory add_entry
    from_disk: Option<PathBuf>,
}

fn gen_extras(r: &mut Rng, root: &Path, thorough: bool, links: bool) -> Vec<Extra> {
    let n = match r.below(8) {
        0..=2 => 0,
        3 | 4 => 1,
        5 | 6 => 2,
        _ => 3,
    };
    let mut out = Vec::new();
    let _ = std::fs::remove_dir_all(root);
    let _ = std::fs::create_dir_all(root.join("xdir"));
    for i in 0..n {
        let from_disk = r.bool();
        let mut kind = *r.pick(&[K::File, K::File, K::Exec, K::Link, K::Dir]);
        if kind == K::Link && !links {
            kind = K::Exec;
        }
        let name = format!("{}extra-{i}", if r.chance(1, 3) { "xdir/" } else { "" });
        let (len, _) = gen_size(r, thorough);
        let content: Vec<u8> = match kind {
            K::Link => b"../points/elsewhere".to_vec(),
            K::Dir => vec![],
            _ => {
                let mut d = Vec::with_capacity(len + 8);
                while d.len() < len {
                    d.extend_from_slice(&r.next_u64().to_le_bytes());
                }
                d.truncate(len);
                d
            }
        };
        let disk = root.join(&name);
        if from_disk {
            use std::os::unix::fs::PermissionsExt;
            let ok = match kind {
                K::Dir => std::fs::create_dir_all(&disk).is_ok(),
                K::Link => std::os::unix::fs::symlink("../points/elsewhere", &disk).is_ok(),
                _ => {
                    std::fs::write(&disk, &content).is_ok()
                        && std::fs::set_permissions(&disk, std::fs::Permissions::from_mode(if kind == K::Exec { 0o755 } else { 0o644 })).is_ok()
                }
            };
            if !ok {
                continue;
            }
        }
        out.push(Extra { path: name.into_bytes(), kind, want: content, from_disk: from_disk.then_some(disk) });
    }
    out
}

fn add_extras(stream: &mut gix_worktree_stream::Stream, extras: &[Extra], root: &Path) -> std::io::Result<()> {
    for x in extras {
        match &x.from_disk {
            Some(p) => {
                stream.add_entry_from_path(root, p)?;
            }
            None => {
                let (mode, source) = match x.kind {
                    K::File => (EntryKind::Blob, gix_worktree_stream::entry::Source::Memory(x.want.clone())),
                    K::Exec => (EntryKind::BlobExecutable, gix_worktree_stream::entry::Source::Memory(x.want.clone())),
                    K::Link => (EntryKind::Link, gix_worktree_stream::entry::Source::Memory(x.want.clone())),
                    _ => (EntryKind::Tree, gix_worktree_stream::entry::Source::Null),
                };
                stream.add_entry(gix_worktree_stream::AdditionalEntry {
                    id: gix_hash::ObjectId::null(gix_hash::Kind::Sha1),
                    mode: mode.into(),
                    relative_path: BString::from(x.path.clone()),
                    source,
                });
            }
        }
    }
    Ok(())
}

/// what a route produced, normalised: (path, kind, len, sha1 of content)
#[derive(Clone, Debug, PartialEq)]
struct Got {
    path: Vec<u8>,
    kind: K,
    len: usize,
    sha1: String,
}

/// compare a produced list against the model. Returns (signature class, text) of the first problem.
fn compare_with_model(got: &[Got], tree: &Tree, extras: &[Extra], prefix: &[u8], skip_dirs: bool) -> Option<(String, String)> {
    let want_tree: Vec<&Ent> = tree.ents.iter().filter(|e| e.kind != K::Sub).collect();
    let got: Vec<&Got> = got.iter().filter(|g| !(skip_dirs && g.kind == K::Dir)).collect();
    let full = |p: &[u8]| -> Vec<u8> {
        let mut v = prefix.to_vec();
        v.extend_from_slice(p);
        v
    };
    // tree part: every entry exactly once (order is the traversal's business)
    let n_tree = want_tree.len();
    let mut seen: BTreeMap<Vec<u8>, usize> = BTreeMap::new();
    for g in got.iter() {
        *seen.entry(g.path.clone()).or_insert(0) += 1;
    }
    if let Some((p, _)) = seen.iter().find(|(_, c)| **c > 1) {
        return Some(("duplicate-entry".into(), format!("{:?} appears more than once", p.as_bstr())));
    }
    for e in &want_tree {
        let p = full(&e.path);
        match got.iter().find(|g| g.path == p) {
            None => {
                return Some((format!("missing-entry|{}", e.kind.label()), format!("{} {:?} ({} bytes, {}) is not in the output", e.kind.label(), p.as_bstr(), e.want.len(), e.size_class)))
            }
            Some(g) => {
                if g.kind != e.kind {
                    return Some((format!("wrong-kind|{}", e.kind.label()), format!("{:?} is a {} in the tree but came out as {}", p.as_bstr(), e.kind.label(), g.kind.label())));
                }
                if g.len != e.want.len() || g.sha1 != fw::sha1_hex(&e.want) {
                    let what = if e.kind == K::Link { "link-target" } else if e.raw != e.want { "filtered-content" } else { "content" };
                    return Some((
                        format!("wrong-{what}|{}", e.size_class),
                        format!("{:?}: {} bytes sha1 {} expected, {} bytes sha1 {} produced", p.as_bstr(), e.want.len(), fw::sha1_hex(&e.want), g.len, g.sha1),
                    ));
                }
            }
        }
    }
    let expected_total = n_tree + extras.iter().filter(|x| !(skip_dirs && x.kind == K::Dir)).count();
    if got.len() != expected_total {
        let known: Vec<Vec<u8>> = want_tree.iter().map(|e| full(&e.path)).chain(extras.iter().map(|x| full(&x.path))).collect();
        let stranger = got.iter().find(|g| !known.contains(&g.path)).map(|g| format!("{:?} ({})", g.path.as_bstr(), g.kind.label()));
        return Some((
            if got.len() > expected_total { "unexpected-entry".into() } else { "missing-additional-entry".into() },
            format!("{} entries produced, {} expected; first unknown: {:?}", got.len(), expected_total, stranger),
        ));
    }
    // additional entries: after the tree's, in order of addition
    let xs: Vec<&Extra> = extras.iter().filter(|x| !(skip_dirs && x.kind == K::Dir)).collect();
    for (g, x) in got[n_tree..].iter().zip(xs.iter()) {
        let p = full(&x.path);
        if g.path != p {
            return Some(("additional-entry-order".into(), format!("expected additional entry {:?}, found {:?}", p.as_bstr(), g.path.as_bstr())));
        }
        if g.kind != x.kind {
            return Some((format!("additional-entry-kind|{}", x.kind.label()), format!("additional {:?} added as {} came out as {}", p.as_bstr(), x.kind.label(), g.kind.label())));
        }
        if x.kind == K::Link && (g.len != x.want.len() || g.sha1 != fw::sha1_hex(&x.want)) {
            return Some(("wrong-link-target|link-target".into(), format!("additional link {:?}: target of {} bytes expected, {} produced", p.as_bstr(), x.want.len(), g.len)));
        }
        if x.kind != K::Dir && (g.len != x.want.len() || g.sha1 != fw::sha1_hex(&x.want)) {
            return Some((
                format!("additional-entry-content|{}", if x.from_disk.is_some() { "from-path" } else { "memory" }),
                format!("additional {:?}: {} bytes expected, {} produced", p.as_bstr(), x.want.len(), g.len),
            ));
        }
    }
    None
}

fn listed_to_got(l: &[Listed]) -> Vec<Got> {
    l.iter()
        .map(|e| Got {
            path: if e.typ == 'd' { e.path.strip_suffix(b"/").unwrap_or(&e.path).to_vec() } else { e.path.clone() },
            kind: match e.typ {
                'f' if e.mode & 0o111 != 0 => K::Exec,
                'f' => K::File,
                'l' => K::Link,
                'd' => K::Dir,
                _ => K::Sub, // never expected: hard links and other types show up as a kind mismatch
            },
            len: e.len,
            sha1: e.sha1.clone(),
        })
        .collect()
}

pub fn run(ctx: &mut Ctx) {
    ctx.rule(
        "case = random tree (files/executables/symlinks/submodules, nested dirs, sizes dense at k*65535±1 and k*65536±1, long/unicode/non-UTF-8 \
         names, optional eol=crlf attribute) + 0..3 additional entries (memory or path; file/exec/link/dir) + optional prefix; \
         routes: stream, tar, tar.gz, zip vs model and vs git archive. distinct = (route, kinds present, size classes, extras shape, prefix?, eol?)",
    );
    ctx.assume("no export-ignore/export-subst attributes, no filter drivers; zip is compared only for trees whose names are valid UTF-8 (documented lossy conversion)");
    ctx.assume("directories are not compared (submodules become directories in git archive and nothing in the stream); permission bits are compared as executable/non-executable only");
    let dir = ctx.dir("c55");
    let repo_dir = dir.join("repo");
    if let Err(e) = fw::git::init(&repo_dir, false) {
        ctx.inconclusive(&format!("git init failed: {e}"));
        return;
    }
    let mut py = match Py::start(&dir) {
        Ok(p) => p,
        Err(e) => {
            ctx.inconclusive(&format!("independent archive reader not available: {e}"));
            return;
        }
    };
    let mut serial = 0u64;
    let n = ctx.n(36, 600);
    ctx.cases("tree", n, |ctx, r| {
        serial += 1;
        let thorough = !ctx.quick();
        // half of the trees carry at most one symlink overall
        let few_links = r.bool();
        let tree = gen_tree(r, thorough, if few_links { 1 } else { usize::MAX });
        let extras_root = dir.join("extras");
        let extras = gen_extras(r, &extras_root, thorough, !few_links);
        let prefix: Vec<u8> = match r.below(4) {
            0 => b"prefix/".to_vec(),
            1 => "a/b-ü/".as_bytes().to_vec(),
            _ => vec![],
        };
        let tree_hex = match import_tree(&repo_dir, &tree, serial) {
            Ok(t) => t,
            Err(e) => {
                ctx.count("setup_failed(skipped)");
                ctx.note("last_setup_failure", json!(e));
                return;
            }
        };
        ctx.count("trees");
        ctx.count_n("tree_entries", tree.ents.len() as u64);
        for e in &tree.ents {
            ctx.count(&format!("kind:{}", e.kind.label()));
            ctx.count(&format!("size:{}", e.size_class));
        }
        ctx.count_n("additional_entries", extras.len() as u64);
        if tree.has_eol_attr {
            ctx.count("trees_with_eol_attribute");
        }
        if tree.non_utf8 {
            ctx.count("trees_with_non_utf8_names");
        }
        if tree.long_paths {
            ctx.count("trees_with_paths_over_100_bytes");
        }
        let tree_id = gix_hash::ObjectId::from_hex(tree_hex.as_bytes()).expect("hex from git");
        let mut kinds: Vec<&str> = tree.ents.iter().map(|e| e.kind.label()).collect();
        kinds.sort();
        kinds.dedup();
        let mut sizes: Vec<&str> = tree.ents.iter().map(|e| e.size_class).collect();
        sizes.sort();
        sizes.dedup();
        let xshape: Vec<(&str, bool)> = extras.iter().map(|x| (x.kind.label(), x.from_disk.is_some())).collect();
        let witness = json!({
            "tree": tree_hex, "prefix": fw::show(&prefix), "eol_attr": tree.has_eol_attr,
            "entries": tree.ents.iter().map(|e| json!({"path": fw::show(&e.path), "kind": e.kind.label(), "len": e.raw.len(), "size_class": e.size_class,
                "raw_sha1": fw::sha1_hex(&e.raw)})).collect::<Vec<_>>(),
            "additional": extras.iter().map(|x| json!({"path": fw::show(&x.path), "kind": x.kind.label(), "len": x.want.len(), "from_path": x.from_disk.is_some()})).collect::<Vec<_>>(),
        });
        let repo = match gix::open_opts(&repo_dir, gix::open::Options::isolated()) {
            Ok(r) => r,
            Err(e) => {
                ctx.inconclusive(&format!("cannot open scratch repository: {e}"));
                return;
            }
        };

        // ---------------- route 1: the stream itself
        {
            let read_sizes: Vec<usize> = (0..r.range(1, 6)).map(|_| *r.pick(&[1usize, 7, 100, 4096, STREAM_BUF - 1, STREAM_BUF, STREAM_BUF + 1, 1 << 20])).collect();
            let res = guard(|| -> Result<Vec<Got>, String> {
                let (mut stream, _index) = repo.worktree_stream(tree_id).map_err(|e| format!("worktree_stream: {e}"))?;
                add_extras(&mut stream, &extras, &extras_root).map_err(|e| format!("add_entry_from_path: {e}"))?;
                let mut out = Vec::new();
                let mut buf = vec![0u8; 1 << 20];
                let mut k = 0usize;
                while let Some(mut entry) = stream.next_entry().map_err(|e| format!("next_entry: {e}"))? {
                    let path = entry.relative_path().to_vec();
                    let kind = match entry.mode.kind() {
                        EntryKind::Blob => K::File,
                        EntryKind::BlobExecutable => K::Exec,
                        EntryKind::Link => K::Link,
                        EntryKind::Tree => K::Dir,
                        EntryKind::Commit => K::Sub,
                    };
                    let announced = entry.bytes_remaining();
                    let mut data = Vec::new();
                    loop {
                        // tiny buffers only while the entry is small, to keep the work bounded
                        let mut want = read_sizes[k % read_sizes.len()];
                        if data.len() > 20_000 {
                            want = want.max(4096);
                        }
                        k += 1;
                        let n = entry.read(&mut buf[..want]).map_err(|e| format!("read of {:?}: {e}", path.as_bstr()))?;
                        if n == 0 {
                            break;
                        }
                        data.extend_from_slice(&buf[..n]);
                    }
                    if let Some(a) = announced {
                        if a != data.len() {
                            return Err(format!("entry {:?} announced {a} bytes but delivered {}", path.as_bstr(), data.len()));
                        }
                    }
                    out.push(Got { path, kind, len: data.len(), sha1: fw::sha1_hex(&data) });
                }
                Ok(out)
            });
            ctx.eval();
            ctx.count("route:stream");
            ctx.distinct(("stream", kinds.clone(), sizes.clone(), xshape.clone(), tree.has_eol_attr));
            match res {
                Err(p) => ctx.panic_violation("worktree_stream", &p, "stream", witness.clone()),
                Ok(Err(e)) => ctx.violation("stream|error", &format!("streaming a valid tree failed: {e}"), witness.clone()),
                Ok(Ok(got)) => {
                    ctx.count_n("stream_entries_read", got.len() as u64);
                    if let Some((class, text)) = compare_with_model(&got, &tree, &extras, b"", false) {
                        let mut w = witness.clone();
                        w["produced"] = json!(got.iter().map(|g| format!("{} {} {}", fw::show(&g.path), g.kind.label(), g.len)).collect::<Vec<_>>());
                        ctx.violation(&format!("stream|{class}"), &text, w);
                    }
                }
            }
        }

        // ---------------- git archive listings (tar and zip), tree entries only
        let mut git_lists: BTreeMap<&str, Vec<Got>> = BTreeMap::new();
        for fmt in ["tar", "zip"] {
            if fmt == "zip" && tree.non_utf8 {
                continue;
            }
            let file = dir.join(format!("git.{fmt}"));
            let mut args: Vec<String> = vec!["-c".into(), "tar.umask=0022".into(), "archive".into(), format!("--format={fmt}"), "-o".into(), file.display().to_string()];
            if !prefix.is_empty() {
                args.push(format!("--prefix={}", String::from_utf8_lossy(&prefix)));
            }
            args.push(tree_hex.clone());
            match fw::git::run(&repo_dir, &args) {
                Ok(o) if o.ok => match py.list(if fmt == "tar" { 'T' } else { 'Z' }, &file) {
                    Ok(Ok(l)) => {
                        ctx.count(&format!("git_archive_{fmt}_listed"));
                        git_lists.insert(fmt, listed_to_got(&l));
                    }
                    Ok(Err(e)) => ctx.inconclusive(&format!("python cannot read git's {fmt} archive: {e}")),
                    Err(e) => ctx.inconclusive(&e),
                },
                Ok(o) => ctx.inconclusive(&format!("git archive failed: {}", o.err_text())),
                Err(e) => ctx.inconclusive(&format!("git spawn failed: {e}")),
            }
        }

        // ---------------- routes 2..4: archives
        for fmt in ["tar", "tar.gz", "zip"] {
            if fmt == "zip" && tree.non_utf8 {
                ctx.count("zip_skipped_non_utf8_names");
                continue;
            }
            // the zip writer accepts deflate levels 1..=9 only (0 is answered with "Unsupported compression level")
            let level = if r.bool() { None } else { Some(r.range(if fmt == "zip" { 1 } else { 0 }, 9) as u8) };
            let format = match fmt {
                "tar" => gix_archive::Format::Tar,
                "tar.gz" => gix_archive::Format::TarGz { compression_level: level },
                _ => gix_archive::Format::Zip { compression_level: level },
            };
            let opts = gix_archive::Options {
                format,
                tree_prefix: (!prefix.is_empty()).then(|| BString::from(prefix.clone())),
                modification_time: 1_700_000_000,
            };
            let seekable = fmt == "zip" || r.bool();
            let res = guard(|| -> Result<Vec<u8>, String> {
                let (mut stream, _index) = repo.worktree_stream(tree_id).map_err(|e| format!("worktree_stream: {e}"))?;
                add_extras(&mut stream, &extras, &extras_root).map_err(|e| format!("add_entry_from_path: {e}"))?;
                let mut buf = Vec::new();
                if seekable {
                    gix_archive::write_stream_seek(&mut stream, gix_worktree_stream::Stream::next_entry, std::io::Cursor::new(&mut buf), opts.clone())
                        .map_err(|e| format!("write_stream_seek: {e}"))?;
                } else {
                    gix_archive::write_stream(&mut stream, gix_worktree_stream::Stream::next_entry, &mut buf, opts.clone()).map_err(|e| format!("write_stream: {e}"))?;
                }
                Ok(buf)
            });
            ctx.eval();
            ctx.count(&format!("route:{fmt}"));
            ctx.distinct((fmt, kinds.clone(), sizes.clone(), xshape.clone(), !prefix.is_empty(), tree.has_eol_attr));
            let bytes = match res {
                Err(p) => {
                    ctx.panic_violation("gix_archive::write_stream", &p, fmt, witness.clone());
                    continue;
                }
                Ok(Err(e)) => {
                    ctx.violation(&format!("{fmt}|error"), &format!("archiving a valid tree failed: {e}"), witness.clone());
                    continue;
                }
                Ok(Ok(b)) => b,
            };
            ctx.count_n("archive_bytes", bytes.len() as u64);
            let file = dir.join(format!("gix.{}", fmt.replace('.', "")));
            if std::fs::write(&file, &bytes).is_err() {
                ctx.inconclusive("cannot write archive to scratch");
                continue;
            }
            let listed = match py.list(if fmt == "zip" { 'Z' } else { 'T' }, &file) {
                Err(e) => {
                    ctx.inconclusive(&e);
                    continue;
                }
                Ok(Err(e)) => {
                    ctx.violation(&format!("{fmt}|independent-reader-rejects-archive"), &format!("python cannot read the archive: {e}"), witness.clone());
                    continue;
                }
                Ok(Ok(l)) => l,
            };
            ctx.count_n("archive_entries_listed", listed.len() as u64);
            let got = listed_to_got(&listed);
            let produced = |got: &[Got]| json!(got.iter().map(|g| format!("{} {} {}", fw::show(&g.path), g.kind.label(), g.len)).collect::<Vec<_>>());
            // tar and tar.gz share the entry writer: one signature family for content level findings
            let sfmt = if fmt == "tar.gz" { "tar" } else { fmt };
            // (a) against the model (directories skipped: the prefix or parents may or may not be listed)
            if let Some((class, text)) = compare_with_model(&got, &tree, &extras, &prefix, true) {
                let mut w = witness.clone();
                w["produced"] = produced(&got);
                w["format"] = json!(fmt);
                ctx.violation(&format!("{sfmt}|{class}"), &text, w);
                continue;
            }
            // (b) against git archive: same files
            let gfmt = if fmt == "zip" { "zip" } else { "tar" };
            if let Some(gl) = git_lists.get(gfmt) {
                ctx.eval();
                let extra_paths: Vec<Vec<u8>> = extras
                    .iter()
                    .map(|x| {
                        let mut v = prefix.clone();
                        v.extend_from_slice(&x.path);
                        v
                    })
                    .collect();
                let ours: BTreeMap<Vec<u8>, (K, usize, String)> =
                    got.iter().filter(|g| g.kind != K::Dir && !extra_paths.contains(&g.path)).map(|g| (g.path.clone(), (g.kind, g.len, g.sha1.clone()))).collect();
                let theirs: BTreeMap<Vec<u8>, (K, usize, String)> = gl.iter().filter(|g| g.kind != K::Dir).map(|g| (g.path.clone(), (g.kind, g.len, g.sha1.clone()))).collect();
                if ours != theirs {
                    let diff: Vec<String> = theirs
                        .iter()
                        .filter(|(p, v)| ours.get(*p) != Some(v))
                        .map(|(p, v)| format!("git has {:?} {:?}, gix {:?}", p.as_bstr(), v, ours.get(p)))
                        .chain(ours.iter().filter(|(p, _)| !theirs.contains_key(*p)).map(|(p, v)| format!("only gix has {:?} {:?}", p.as_bstr(), v)))
                        .take(4)
                        .collect();
                    let aspect = if ours.len() != theirs.len() {
                        "file-set"
                    } else if ours.keys().ne(theirs.keys()) {
                        "paths"
                    } else if ours.iter().zip(theirs.iter()).any(|(a, b)| a.1 .0 != b.1 .0) {
                        "kind"
                    } else {
                        "content"
                    };
                    let mut w = witness.clone();
                    w["format"] = json!(fmt);
                    w["difference"] = json!(diff);
                    ctx.violation(&format!("{sfmt}|differs-from-git-archive|{aspect}"), &diff.join("; "), w);
                    continue;
                }
                ctx.count(&format!("agree_with_git_archive:{fmt}"));
            }
        }
        if ctx.want_sample() {
            ctx.sample(json!({"tree": tree_hex, "entries": tree.ents.iter().map(|e| format!("{} {} {}", fw::show(&e.path), e.kind.label(), e.raw.len())).collect::<Vec<_>>(),
                "additional": extras.iter().map(|x| format!("{} {} {} {}", fw::show(&x.path), x.kind.label(), x.want.len(), if x.from_disk.is_some() {"path"} else {"memory"})).collect::<Vec<_>>(),
                "prefix": fw::show(&prefix), "eol_attr": tree.has_eol_attr}));
        }
    });
}
