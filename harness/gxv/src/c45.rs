//! C45 Text merges obey merge identities and never panic.
//!
//! Code under test: `gix_merge::blob::builtin_driver::text::merge` (the real function, every
//! `ConflictStyle`, marker sizes 1..=20, `ResolveWith{Ours,Theirs,Union}`, all diff algorithms).
//!
//! Oracles (all relational, decided inside the process; `git merge-file -p` is only attached to
//! witnesses as context, it is never the verdict):
//!  * P   no panic (site inside /repo ⇒ violation).
//!  * I1  ours == base  ⇒ result == theirs and `Resolution::Complete` (and symmetric).
//!  * I2  ours == theirs ⇒ result == ours.
//!  * M   `Resolution::Complete` ⇒ no *inserted* conflict marker: an output line that is
//!        marker-shaped for the marker size in use and is not a line of any input.
//!  * S   `ResolveWithOurs/Theirs`: every output line is a line of base ∪ ours ∪ theirs, and a line that
//!        only the *non-chosen* side has may appear only as often as gitoxide itself places it outside
//!        conflict blocks when the same merge is run with `Keep{Diff3}` (non-conflicting changes of the
//!        other side are legitimately merged; the statement is about how *conflicts* are resolved).
//! Lines are compared with their terminator (LF / CRLF) removed.
use crate::fw::{git, guard, show, unshow, Ctx, Rng};
use gix_diff::blob::intern::InternedInput;
use gix_diff::blob::Algorithm;
use gix_merge::blob::builtin_driver::text::{Conflict, ConflictStyle, Labels, Options};
use gix_merge::blob::Resolution;
use serde_json::{json, Value};
use std::collections::{HashMap, HashSet};
use std::path::Path;

const WORDS: [&[u8]; 6] = [b"alpha", b"beta", b"gamma", b"delta", b"x", b"}"];
const MARK: [u8; 4] = [b'<', b'=', b'>', b'|'];

#[derive(Clone, Copy, PartialEq, Eq, Hash, Debug)]
enum Mode {
    Merge,
    Diff3,
    ZDiff3,
    Ours,
    Theirs,
    Union,
}
const MODES: [Mode; 6] = [Mode::Merge, Mode::Diff3, Mode::ZDiff3, Mode::Ours, Mode::Theirs, Mode::Union];
const ALGOS: [Algorithm; 3] = [Algorithm::Myers, Algorithm::MyersMinimal, Algorithm::Histogram];

impl Mode {
    fn conflict(self, marker_size: usize) -> Conflict {
        match self {
            Mode::Merge => Conflict::Keep { style: ConflictStyle::Merge, marker_size },
            Mode::Diff3 => Conflict::Keep { style: ConflictStyle::Diff3, marker_size },
            Mode::ZDiff3 => Conflict::Keep { style: ConflictStyle::ZealousDiff3, marker_size },
            Mode::Ours => Conflict::ResolveWithOurs,
            Mode::Theirs => Conflict::ResolveWithTheirs,
            Mode::Union => Conflict::ResolveWithUnion,
        }
    }
    /// modes sharing their conflict handling code
    fn family(self) -> &'static str {
        match self {
            Mode::Merge | Mode::Diff3 | Mode::ZDiff3 => "keep",
            Mode::Ours | Mode::Theirs => "side",
            Mode::Union => "union",
        }
    }
    fn from_name(n: &str) -> Option<Mode> {
        MODES.into_iter().find(|m| m.name() == n)
    }
    fn name(self) -> &'static str {
        match self {
            Mode::Merge => "keep-merge",
            Mode::Diff3 => "keep-diff3",
            Mode::ZDiff3 => "keep-zdiff3",
            Mode::Ours => "resolve-ours",
            Mode::Theirs => "resolve-theirs",
            Mode::Union => "resolve-union",
        }
    }
}

// ------------------------------------------------------------------ workload

#[derive(Clone, Debug)]
enum Edit {
    Insert(usize, Vec<u8>),
    Delete(usize),
    Replace(usize, Vec<u8>),
    Duplicate(usize),
    Move(usize, usize),
    DeleteRange(usize, usize),
}

fn apply(lines: &mut Vec<Vec<u8>>, e: &Edit) {
    let n = lines.len();
    match e {
        Edit::Insert(p, l) => lines.insert((*p).min(n), l.clone()),
        Edit::Delete(p) => {
            if n > 0 {
                lines.remove((*p).min(n - 1));
            }
        }
        Edit::Replace(p, l) => {
            if n > 0 {
                lines[(*p).min(n - 1)] = l.clone();
            } else {
                lines.push(l.clone());
            }
        }
        Edit::Duplicate(p) => {
            if n > 0 {
                let p = (*p).min(n - 1);
                let l = lines[p].clone();
                lines.insert(p, l);
            }
        }
        Edit::Move(a, b) => {
            if n > 0 {
                let l = lines.remove((*a).min(n - 1));
                let m = lines.len();
                lines.insert((*b).min(m), l);
            }
        }
        Edit::DeleteRange(p, k) => {
            if n > 0 {
                let p = (*p).min(n - 1);
                let e = (p + *k).min(n);
                lines.drain(p..e);
            }
        }
    }
}

struct Gen {
    marker_size: usize,
    /// 0 = LF, 1 = CRLF, 2 = mixed
    nl_style: u64,
    wide: bool,
}

impl Gen {
    fn term(&self, r: &mut Rng) -> &'static [u8] {
        match self.nl_style {
            0 => b"\n",
            1 => b"\r\n",
            _ => {
                if r.bool() {
                    b"\n"
                } else {
                    b"\r\n"
                }
            }
        }
    }
    /// a new line (with terminator); `tag` makes side-unique lines possible
    fn line(&self, r: &mut Rng, tag: u8, serial: &mut u32) -> Vec<u8> {
        let mut l: Vec<u8> = match r.below(30) {
            0 => Vec::new(),
            1 => {
                // looks like a conflict marker (of the size in use, or near it)
                let c = *r.pick(&MARK);
                let n = match r.below(4) {
                    0 => self.marker_size,
                    1 => self.marker_size + 1,
                    2 => self.marker_size.saturating_sub(1).max(1),
                    _ => 7,
                };
                let mut v = vec![c; n];
                if r.chance(1, 3) {
                    v.extend_from_slice(b" ours");
                }
                v
            }
            2 => b" ".to_vec(),
            3 | 4 | 5 | 6 | 7 | 8 => {
                // side-unique line
                *serial += 1;
                format!("{}{}", tag as char, serial).into_bytes()
            }
            _ => r.pick(&WORDS).to_vec(),
        };
        l.extend_from_slice(self.term(r));
        l
    }
    fn pos(&self, r: &mut Rng, n: usize, hot: &[usize]) -> usize {
        match r.below(10) {
            0 | 1 => 0,
            2 | 3 => n.saturating_sub(1),
            4 => n,
            5 | 6 | 7 if !hot.is_empty() => {
                let h = *r.pick(hot) as i64 + r.range(-1, 1);
                h.clamp(0, n as i64) as usize
            }
            _ => r.usize(n + 1),
        }
    }
    fn edits(&self, r: &mut Rng, n: usize, tag: u8, hot: &[usize]) -> Vec<Edit> {
        let max = if self.wide { 10 } else { 6 };
        let k = r.usize(max + 1);
        let mut serial = 0u32;
        let mut out = Vec::with_capacity(k);
        for _ in 0..k {
            let p = self.pos(r, n, hot);
            out.push(match r.below(12) {
                0 | 1 | 2 => Edit::Insert(p, self.line(r, tag, &mut serial)),
                3 | 4 => Edit::Delete(p),
                5 | 6 | 7 => Edit::Replace(p, self.line(r, tag, &mut serial)),
                8 => Edit::Duplicate(p),
                9 => Edit::Move(p, self.pos(r, n, hot)),
                10 => Edit::DeleteRange(p, 1 + r.usize(4)),
                _ => Edit::Insert(p, self.line(r, tag, &mut serial)),
            });
        }
        out
    }
}

fn edit_positions(es: &[Edit]) -> Vec<usize> {
    es.iter()
        .map(|e| match e {
            Edit::Insert(p, _) | Edit::Delete(p) | Edit::Replace(p, _) | Edit::Duplicate(p) | Edit::Move(p, _) | Edit::DeleteRange(p, _) => *p,
        })
        .collect()
}

/// concatenate, then maybe convert all terminators / strip the final one
fn render(lines: &[Vec<u8>], r: &mut Rng) -> (Vec<u8>, u8) {
    let mut out: Vec<u8> = lines.concat();
    match r.below(16) {
        0 => out = to_lf(&out),
        1 => out = to_crlf(&out),
        _ => {}
    }
    let mut stripped = false;
    if r.chance(1, 4) && out.ends_with(b"\n") {
        out.pop();
        if out.ends_with(b"\r") && r.chance(3, 4) {
            out.pop();
        }
        stripped = true;
    }
    let class = nl_class(&out, stripped);
    (out, class)
}

fn to_lf(b: &[u8]) -> Vec<u8> {
    let mut o = Vec::with_capacity(b.len());
    let mut i = 0;
    while i < b.len() {
        if b[i] == b'\r' && b.get(i + 1) == Some(&b'\n') {
            i += 1;
            continue;
        }
        o.push(b[i]);
        i += 1;
    }
    o
}
fn to_crlf(b: &[u8]) -> Vec<u8> {
    let lf = to_lf(b);
    let mut o = Vec::with_capacity(lf.len() + 8);
    for &c in &lf {
        if c == b'\n' {
            o.push(b'\r');
        }
        o.push(c);
    }
    o
}

/// 0 empty, 1 LF, 2 CRLF, 3 mixed; +4 when the final newline is missing
fn nl_class(b: &[u8], _stripped: bool) -> u8 {
    if b.is_empty() {
        return 0;
    }
    let mut lf = 0;
    let mut crlf = 0;
    for (i, &c) in b.iter().enumerate() {
        if c == b'\n' {
            if i > 0 && b[i - 1] == b'\r' {
                crlf += 1
            } else {
                lf += 1
            }
        }
    }
    let base = match (lf > 0, crlf > 0) {
        (true, true) => 3,
        (false, true) => 2,
        _ => 1,
    };
    base + if b.ends_with(b"\n") { 0 } else { 4 }
}

// ------------------------------------------------------------------ oracle

/// lines without their terminator ("\n" or "\r\n"); a CR at the end of an unterminated last line is content
fn norm_lines(b: &[u8]) -> Vec<&[u8]> {
    let mut v = Vec::new();
    if b.is_empty() {
        return v;
    }
    for l in b.split_inclusive(|&c| c == b'\n') {
        let mut l = l;
        if l.ends_with(b"\n") {
            l = &l[..l.len() - 1];
            if l.ends_with(b"\r") {
                l = &l[..l.len() - 1];
            }
        }
        v.push(l);
    }
    v
}

/// `Some(c)` if the line is exactly what `write_conflict_marker` emits for `marker_size` and one of the labels
fn marker_shape(line: &[u8], marker_size: usize, labels: &[Option<Vec<u8>>; 3]) -> Option<u8> {
    let c = *line.first()?;
    if !MARK.contains(&c) || line.len() < marker_size || !line[..marker_size].iter().all(|&x| x == c) {
        return None;
    }
    let rest = &line[marker_size..];
    if rest.is_empty() {
        return Some(c);
    }
    for l in labels.iter().flatten() {
        if rest.len() == l.len() + 1 && rest[0] == b' ' && &rest[1..] == l.as_slice() {
            return Some(c);
        }
    }
    None
}

/// conservative: could this input line be confused with a marker of this size?
fn marker_like(line: &[u8], marker_size: usize) -> bool {
    match line.first() {
        Some(c) if MARK.contains(c) => line.len() >= marker_size && line[..marker_size].iter().all(|x| x == c),
        _ => false,
    }
}

/// Lines of a `Keep{Diff3}` result that are outside conflict blocks, or None if the block structure is malformed.
fn outside_conflicts<'a>(out: &'a [u8], marker_size: usize, labels: &[Option<Vec<u8>>; 3]) -> Option<(Vec<&'a [u8]>, usize)> {
    let mut outside = Vec::new();
    let mut state = 0u8; // 0 outside, 1 ours, 2 base, 3 theirs
    let mut blocks = 0;
    for l in norm_lines(out) {
        match (state, marker_shape(l, marker_size, labels)) {
            (0, Some(b'<')) => state = 1,
            (1, Some(b'|')) => state = 2,
            (2, Some(b'=')) => state = 3,
            (3, Some(b'>')) => {
                state = 0;
                blocks += 1;
            }
            (_, Some(_)) => return None,
            (0, None) => outside.push(l),
            _ => {}
        }
    }
    (state == 0).then_some((outside, blocks))
}

#[derive(Clone, Copy, PartialEq, Eq, Debug)]
enum Tie {
    None,
    OursIsBase,
    TheirsIsBase,
    TheirsIsOurs,
}
impl Tie {
    fn name(self) -> &'static str {
        match self {
            Tie::None => "none",
            Tie::OursIsBase => "ours==base",
            Tie::TheirsIsBase => "theirs==base",
            Tie::TheirsIsOurs => "ours==theirs",
        }
    }
    fn from_name(n: &str) -> Tie {
        [Tie::OursIsBase, Tie::TheirsIsBase, Tie::TheirsIsOurs].into_iter().find(|t| t.name() == n).unwrap_or(Tie::None)
    }
}

/// One call of the merge function, completely described (replayable, minimizable).
#[derive(Clone)]
struct Probe {
    /// ours, base, theirs
    texts: [Vec<u8>; 3],
    tie: Tie,
    mode: Mode,
    marker_size: usize,
    algo: Algorithm,
    labels: [Option<Vec<u8>>; 3],
    /// bit 0: the token store was used by another merge before and is not cleared (allowed by the docs);
    /// bit 1: the output buffer holds stale bytes (documented: cleared before use)
    flags: u64,
}

impl Probe {
    fn retie(&mut self) {
        match self.tie {
            Tie::None => {}
            Tie::OursIsBase => self.texts[0] = self.texts[1].clone(),
            Tie::TheirsIsBase => self.texts[2] = self.texts[1].clone(),
            Tie::TheirsIsOurs => self.texts[2] = self.texts[0].clone(),
        }
    }
    fn dependent(&self) -> Option<usize> {
        match self.tie {
            Tie::None => None,
            Tie::OursIsBase => Some(0),
            Tie::TheirsIsBase | Tie::TheirsIsOurs => Some(2),
        }
    }
    fn json(&self) -> Value {
        json!({
            "ours": show(&self.texts[0]), "base": show(&self.texts[1]), "theirs": show(&self.texts[2]),
            "identity": self.tie.name(),
            "mode": self.mode.name(), "marker_size": self.marker_size, "algorithm": algo_name(self.algo),
            "labels": self.labels.iter().map(|l| l.as_ref().map(|l| show(l))).collect::<Vec<_>>(),
            "flags": self.flags,
        })
    }
    fn from_json(v: &Value) -> Option<Probe> {
        let t = |k: &str| v.get(k).and_then(Value::as_str).map(unshow);
        let labels = v.get("labels").and_then(Value::as_array)?;
        let lab = |i: usize| labels.get(i).and_then(Value::as_str).map(unshow);
        Some(Probe {
            texts: [t("ours")?, t("base")?, t("theirs")?],
            tie: Tie::from_name(v.get("identity").and_then(Value::as_str).unwrap_or("none")),
            mode: Mode::from_name(v.get("mode")?.as_str()?)?,
            marker_size: v.get("marker_size")?.as_u64()? as usize,
            algo: *ALGOS.iter().find(|a| Some(algo_name(**a)) == v.get("algorithm").and_then(Value::as_str))?,
            labels: [lab(0), lab(1), lab(2)],
            flags: v.get("flags").and_then(Value::as_u64).unwrap_or(0),
        })
    }
}

fn algo_name(a: Algorithm) -> &'static str {
    match a {
        Algorithm::Myers => "myers",
        Algorithm::MyersMinimal => "myers-minimal",
        Algorithm::Histogram => "histogram",
    }
}

struct MergeOut {
    out: Vec<u8>,
    res: Resolution,
}

/// the call under test
fn run_merge(p: &Probe, mode: Mode, flags: u64) -> Result<MergeOut, crate::fw::PanicInfo> {
    let [ours, base, theirs] = &p.texts;
    let opts = Options { diff_algorithm: p.algo, conflict: mode.conflict(p.marker_size) };
    let l = Labels {
        ancestor: p.labels[0].as_deref().map(Into::into),
        current: p.labels[1].as_deref().map(Into::into),
        other: p.labels[2].as_deref().map(Into::into),
    };
    guard(|| {
        let mut input: InternedInput<&[u8]> = InternedInput::default();
        let mut out = Vec::new();
        if flags & 1 == 1 {
            // leave tokens of another merge behind
            input.update_before(gix_diff::blob::sources::byte_lines_with_terminator(theirs.as_slice()));
            input.update_after(gix_diff::blob::sources::byte_lines_with_terminator(ours.as_slice()));
        }
        if flags & 2 == 2 {
            out.extend_from_slice(b"stale content that merge() must clear\n");
        }
        let res = gix_merge::blob::builtin_driver::text(&mut out, &mut input, l, ours, base, theirs, opts);
        MergeOut { out, res }
    })
}

struct Finding {
    sig: String,
    what: String,
    detail: Value,
    panic: Option<crate::fw::PanicInfo>,
}

#[derive(Default)]
struct Verdict {
    findings: Vec<Finding>,
    conflict: Option<bool>,
    out: Option<Vec<u8>>,
    /// "exact", "exact+conflicts", "skipped:…"
    side_check: Option<&'static str>,
    other_side_lines_kept: bool,
    diff3_blocks: Option<usize>,
    foreign_plain_line: bool,
    same_change_reported_conflict: bool,
}

fn panic_sig(p: &crate::fw::PanicInfo) -> String {
    // must equal what Ctx::panic_violation builds
    format!("panic|text::merge|{}|merge", p.site)
}

/// Decide every clause of the statement for one call. Pure: used by the monitor, the minimizer and the probe child.
fn judge(p: &Probe) -> Verdict {
    let mut v = Verdict::default();
    let m = match run_merge(p, p.mode, p.flags) {
        Ok(m) => m,
        Err(pi) => {
            v.findings.push(Finding {
                sig: panic_sig(&pi),
                what: format!("text::merge panicked at {}: {}", pi.site, pi.message),
                detail: json!({"panic": pi.message}),
                panic: Some(pi),
            });
            return v;
        }
    };
    let [ours, base, theirs] = &p.texts;
    let in_lines: [HashSet<&[u8]>; 3] = [norm_lines(ours).into_iter().collect(), norm_lines(base).into_iter().collect(), norm_lines(theirs).into_iter().collect()];
    // also accept an unterminated input line ending in CR that was completed by "\n" in the output
    let known = |l: &[u8]| {
        in_lines.iter().any(|s| s.contains(l)) || {
            let mut cr = l.to_vec();
            cr.push(b'\r');
            [ours, base, theirs].iter().any(|t| !t.ends_with(b"\n") && norm_lines(t).last() == Some(&cr.as_slice()))
        }
    };
    // can the line be cut into two or more input lines?
    let joined = |l: &[u8]| {
        let mut reach = vec![false; l.len() + 1];
        reach[0] = true;
        for end in 1..=l.len() {
            reach[end] = (0..end).any(|start| reach[start] && !(start == 0 && end == l.len()) && known(&l[start..end]));
        }
        reach[l.len()]
    };
    let complete = m.res == Resolution::Complete;
    v.conflict = Some(!complete);

    // I1 / I2
    let want: Option<&Vec<u8>> = match p.tie {
        Tie::None => None,
        Tie::OursIsBase => Some(theirs),
        Tie::TheirsIsBase | Tie::TheirsIsOurs => Some(ours),
    };
    if let Some(want) = want {
        if &m.out != want {
            let class = if m.out.strip_suffix(b"\n").map(|o| o.strip_suffix(b"\r").unwrap_or(o)) == Some(want.as_slice())
                || m.out.strip_suffix(b"\n") == Some(want.as_slice())
            {
                "only-final-newline-added"
            } else {
                "content"
            };
            v.findings.push(Finding {
                sig: format!("identity|{}|result-differs|{}|{}", p.tie.name(), class, p.mode.family()),
                what: format!("{}: the merge result is not the {} side", p.tie.name(), if p.tie == Tie::TheirsIsOurs { "common" } else { "changed" }),
                detail: json!({"output": show(&m.out), "expected": show(want), "resolution": format!("{:?}", m.res)}),
                panic: None,
            });
        } else if !complete {
            if p.tie == Tie::TheirsIsOurs {
                // the statement only fixes the content in this case
                v.same_change_reported_conflict = true;
            } else {
                v.findings.push(Finding {
                    sig: format!("identity|{}|reported-conflict|{}", p.tie.name(), p.mode.family()),
                    what: format!("{}: the result is the changed side but Resolution::Conflict is reported", p.tie.name()),
                    detail: json!({"output": show(&m.out)}),
                    panic: None,
                });
            }
        }
    }
    // auto-resolving modes never leave a conflict
    if !complete && p.mode.family() != "keep" {
        v.findings.push(Finding {
            sig: format!("resolution|conflict-reported-by-{}", p.mode.name()),
            what: "an auto-resolving mode reported Resolution::Conflict".into(),
            detail: json!({"output": show(&m.out)}),
            panic: None,
        });
    }
    // M: Complete => no inserted marker line
    if complete {
        for l in norm_lines(&m.out) {
            if known(l) {
                continue;
            }
            if marker_shape(l, p.marker_size, &p.labels).is_some() {
                v.findings.push(Finding {
                    sig: format!("complete|inserted-marker|{}", p.mode.family()),
                    what: "a result reported Complete contains a conflict-marker line that is in none of the inputs".into(),
                    detail: json!({"output": show(&m.out), "line": show(l)}),
                    panic: None,
                });
                break;
            } else {
                // Keep/Union: the statement only speaks about markers; visible as a counter
                v.foreign_plain_line = true;
            }
        }
    }
    // S: side resolutions
    if let Mode::Ours | Mode::Theirs = p.mode {
        let (chosen, other) = if p.mode == Mode::Ours { (0usize, 2usize) } else { (2, 0) };
        let mut other_only: HashMap<&[u8], i64> = HashMap::new();
        let mut foreign: Option<&[u8]> = None;
        for l in norm_lines(&m.out) {
            if in_lines[1].contains(l) || in_lines[chosen].contains(l) {
                continue;
            }
            // the unterminated last line of base/chosen side ending in CR, completed by "\n" in the output,
            // reads as that line without the CR: attribute it to base/chosen side, not to the other side
            let cr_completed = |t: &Vec<u8>| {
                !t.ends_with(b"\n") && norm_lines(t).last().map_or(false, |last| last.len() == l.len() + 1 && last.ends_with(b"\r") && &last[..l.len()] == l)
            };
            if cr_completed(&p.texts[1]) || cr_completed(&p.texts[chosen]) {
                continue;
            }
            if !in_lines[other].contains(l) && known(l) {
                continue; // CR-completed unterminated line, see `known`
            }
            if in_lines[other].contains(l) {
                *other_only.entry(l).or_insert(0) += 1;
            } else if foreign.is_none() {
                foreign = Some(l);
            }
        }
        if let Some(l) = foreign {
            let class = if joined(l) { "input-lines-joined" } else { "other" };
            v.findings.push(Finding {
                sig: format!("side-resolution|line-of-no-input|{class}"),
                what: "an ours/theirs resolution contains a line that is in none of the inputs".into(),
                detail: json!({"output": show(&m.out), "line": show(l)}),
                panic: None,
            });
        }
        v.other_side_lines_kept = !other_only.is_empty();
        let any_marker_like_input = in_lines.iter().any(|s| s.iter().any(|l| marker_like(l, p.marker_size)));
        if any_marker_like_input {
            v.side_check = Some("skipped:marker-like-input");
        } else {
            match run_merge(p, Mode::Diff3, 0) {
                Err(_) => v.side_check = Some("skipped:diff3-reference-panicked"),
                Ok(d3) => match outside_conflicts(&d3.out, p.marker_size, &p.labels) {
                    None => v.side_check = Some("skipped:diff3-reference-unparsable"),
                    Some((outside, blocks)) => {
                        v.side_check = Some(if blocks > 0 { "exact+conflicts" } else { "exact" });
                        v.diff3_blocks = Some(blocks);
                        let mut allowed: HashMap<&[u8], i64> = HashMap::new();
                        for l in &outside {
                            *allowed.entry(*l).or_insert(0) += 1;
                        }
                        let mut bad: Vec<&[u8]> = other_only.iter().filter(|(l, n)| **n > allowed.get(*l).copied().unwrap_or(0)).map(|(l, _)| *l).collect();
                        bad.sort();
                        if let Some(l) = bad.first() {
                            v.findings.push(Finding {
                                sig: "side-resolution|other-side-line-from-conflict".into(),
                                what: "an ours/theirs resolution contains a line only the other side has, more often than it occurs outside the conflict blocks of the diff3 rendering of the same merge".into(),
                                detail: json!({"output": show(&m.out), "line": show(l), "diff3_output": show(&d3.out)}),
                                panic: None,
                            });
                        }
                    }
                },
            }
        }
    }
    v.out = Some(m.out);
    v
}

fn has_sig(p: &Probe, sig: &str) -> bool {
    judge(p).findings.iter().any(|f| f.sig == sig)
}

fn split_lines(b: &[u8]) -> Vec<Vec<u8>> {
    b.split_inclusive(|&c| c == b'\n').map(<[u8]>::to_vec).collect()
}

/// Greedy reduction of a probe while a finding with signature `sig` persists.
fn minimize(p: &Probe, sig: &str) -> Probe {
    let mut best = p.clone();
    let mut budget = 6000;
    let attempt = |cand: Probe, best: &mut Probe, budget: &mut i32| -> bool {
        if *budget <= 0 {
            return false;
        }
        *budget -= 1;
        let mut cand = cand;
        cand.retie();
        if has_sig(&cand, sig) {
            *best = cand;
            true
        } else {
            false
        }
    };
    // simpler options first
    for f in [0u64, best.flags & 1, best.flags & 2] {
        if best.flags != f {
            let mut c = best.clone();
            c.flags = f;
            if attempt(c, &mut best, &mut budget) {
                break;
            }
        }
    }
    if best.labels.iter().any(Option::is_some) {
        let mut c = best.clone();
        c.labels = [None, None, None];
        attempt(c, &mut best, &mut budget);
    }
    if best.algo != Algorithm::Myers {
        let mut c = best.clone();
        c.algo = Algorithm::Myers;
        attempt(c, &mut best, &mut budget);
    }
    if best.marker_size != 7 {
        let mut c = best.clone();
        c.marker_size = 7;
        attempt(c, &mut best, &mut budget);
    }
    // all LF
    {
        let mut c = best.clone();
        for t in c.texts.iter_mut() {
            *t = to_lf(t);
        }
        attempt(c, &mut best, &mut budget);
    }
    loop {
        let mut progressed = false;
        for which in 0..3 {
            if best.dependent() == Some(which) {
                continue;
            }
            // remove chunks of lines, large to small
            let mut chunk = split_lines(&best.texts[which]).len().max(1);
            while chunk >= 1 {
                let mut i = 0;
                loop {
                    let lines = split_lines(&best.texts[which]);
                    if i >= lines.len() {
                        break;
                    }
                    let end = (i + chunk).min(lines.len());
                    let mut c = best.clone();
                    c.texts[which] = lines[..i].iter().chain(&lines[end..]).flatten().copied().collect();
                    if attempt(c, &mut best, &mut budget) {
                        progressed = true;
                    } else {
                        i += chunk;
                    }
                }
                chunk /= 2;
            }
            // final newline present is simpler than absent
            if !best.texts[which].is_empty() && !best.texts[which].ends_with(b"\n") {
                let mut c = best.clone();
                c.texts[which].push(b'\n');
                if attempt(c, &mut best, &mut budget) {
                    progressed = true;
                }
            }
        }
        // remove the same line content from all three at once (common context)
        let lines0 = split_lines(&best.texts[1]);
        for l in lines0 {
            let mut c = best.clone();
            let mut changed = false;
            for t in c.texts.iter_mut() {
                let ls = split_lines(t);
                if let Some(pos) = ls.iter().position(|x| *x == l) {
                    *t = ls[..pos].iter().chain(&ls[pos + 1..]).flatten().copied().collect();
                    changed = true;
                }
            }
            if changed && attempt(c, &mut best, &mut budget) {
                progressed = true;
            }
        }
        if !progressed || budget <= 0 {
            break;
        }
    }
    best
}

fn git_context(dir: &Path, p: &Probe) -> Value {
    let w = |n: &str, b: &[u8]| std::fs::write(dir.join(n), b).is_ok();
    if !(w("ours", &p.texts[0]) && w("base", &p.texts[1]) && w("theirs", &p.texts[2])) {
        return Value::Null;
    }
    let ms = format!("--marker-size={}", p.marker_size);
    let mut args: Vec<&str> = vec!["merge-file", "-p", &ms];
    match p.mode {
        Mode::Merge => {}
        Mode::Diff3 => args.push("--diff3"),
        Mode::ZDiff3 => args.push("--zdiff3"),
        Mode::Ours => args.push("--ours"),
        Mode::Theirs => args.push("--theirs"),
        Mode::Union => args.push("--union"),
    }
    args.extend(["ours", "base", "theirs"]);
    match git::run(dir, &args) {
        Ok(o) => json!({"args": args.join(" "), "stdout": show(&o.stdout), "exit": o.code}),
        Err(_) => Value::Null,
    }
}

/// report the findings of one probe; new signatures get a minimized witness and git's answer as context
fn report(ctx: &mut Ctx, seen: &mut HashSet<String>, p: &Probe, v: &Verdict) {
    for f in &v.findings {
        let mut w = json!({"probe": p.json(), "detail": f.detail});
        if seen.insert(f.sig.clone()) {
            let small = minimize(p, &f.sig);
            let sv = judge(&small);
            let d = ctx.dir("gitctx");
            w["minimized"] = json!({
                "probe": small.json(),
                "detail": sv.findings.iter().find(|x| x.sig == f.sig).map(|x| x.detail.clone()),
                "git_merge_file": git_context(&d, &small),
            });
            ctx.count("witnesses_minimized");
        }
        match &f.panic {
            Some(pi) => ctx.panic_violation("text::merge", pi, "merge", w),
            None => ctx.violation(&f.sig, &f.what, w),
        }
    }
}

fn one_case(ctx: &mut Ctx, r: &mut Rng, seen: &mut HashSet<String>) {
    let wide = !ctx.quick() && r.chance(1, 3);
    let marker_size = match r.below(8) {
        0 => 7,
        1 => 1,
        2 => 20,
        _ => r.range(1, 20) as usize,
    };
    let g = Gen { marker_size, nl_style: [0, 0, 1, 2][r.usize(4)], wide };
    let max_lines = if wide { 90 } else { 40 };
    let n = match r.below(12) {
        0 => 0,
        1 => 1,
        2 => 2,
        _ => r.usize(max_lines + 1),
    };
    let mut serial = 0u32;
    let mut base_lines: Vec<Vec<u8>> = Vec::with_capacity(n);
    for _ in 0..n {
        let l = if r.chance(1, 12) {
            g.line(r, b'B', &mut serial)
        } else {
            let mut w = r.pick(&WORDS).to_vec();
            w.extend_from_slice(g.term(r));
            w
        };
        base_lines.push(l);
    }
    let e_ours = g.edits(r, n, b'O', &[]);
    let hot = edit_positions(&e_ours);
    let use_hot = r.chance(2, 3);
    let mut e_theirs = g.edits(r, n, b'T', if use_hot { &hot } else { &[] });
    // sometimes both sides share a prefix of the same edits (same change on both sides + own changes)
    let shared = if r.chance(1, 4) && !e_ours.is_empty() { 1 + r.usize(e_ours.len()) } else { 0 };
    if shared > 0 {
        let mut v: Vec<Edit> = e_ours[..shared].to_vec();
        v.append(&mut e_theirs);
        e_theirs = v;
    }
    let mut ours_lines = base_lines.clone();
    e_ours.iter().for_each(|e| apply(&mut ours_lines, e));
    let mut theirs_lines = base_lines.clone();
    e_theirs.iter().for_each(|e| apply(&mut theirs_lines, e));
    let (base, cb) = render(&base_lines, r);
    let (ours, co) = render(&ours_lines, r);
    let (theirs, ct) = render(&theirs_lines, r);
    let label_pool: [Option<&[u8]>; 5] = [None, Some(b"ours"), Some(b"theirs"), Some(b""), Some(b"a b/c.txt")];
    let labels: [Option<Vec<u8>>; 3] = [
        r.pick(&label_pool).map(<[u8]>::to_vec),
        r.pick(&label_pool).map(<[u8]>::to_vec),
        r.pick(&label_pool).map(<[u8]>::to_vec),
    ];
    let algo = *r.pick(&ALGOS);
    let changed = (ours != base, theirs != base, ours == theirs);
    let mut probe = Probe { texts: [ours, base, theirs], tie: Tie::None, mode: Mode::Merge, marker_size, algo, labels, flags: 0 };

    // ---- the triple under every mode
    let mut conflict: HashMap<Mode, Option<bool>> = HashMap::new();
    let mut blocks = None;
    let mut sample_out: HashMap<Mode, Vec<u8>> = HashMap::new();
    for mode in MODES {
        probe.mode = mode;
        probe.flags = r.below(4);
        let v = judge(&probe);
        ctx.eval();
        ctx.count("merges");
        match v.conflict {
            Some(c) => ctx.count(&format!("{}:{}", mode.name(), if c { "conflict" } else { "complete" })),
            None => ctx.count(&format!("{}:panic", mode.name())),
        }
        if v.conflict == Some(false) {
            ctx.count("complete_results_checked_for_markers");
        }
        if v.foreign_plain_line {
            ctx.count(&format!("complete_with_line_of_no_input:{}", mode.name()));
        }
        if let Some(s) = v.side_check {
            ctx.count(&format!("side_check:{s}"));
            if v.other_side_lines_kept && s.starts_with("exact") {
                ctx.count("side_check:exact_and_other_side_lines_legitimately_present");
            }
        }
        if v.diff3_blocks.is_some() {
            blocks = v.diff3_blocks.map(|b| b.min(4));
        }
        conflict.insert(mode, v.conflict);
        report(ctx, seen, &probe, &v);
        if let Some(o) = v.out {
            sample_out.insert(mode, o);
        }
    }
    for mode in MODES {
        ctx.distinct((conflict[&Mode::Merge], conflict[&Mode::Diff3], blocks, (cb, co, ct), changed, mode, algo_name(algo), marker_size.min(8)));
    }
    if ctx.want_sample() && conflict[&Mode::Merge] == Some(true) {
        ctx.sample(json!({
            "ours": show(&probe.texts[0]), "base": show(&probe.texts[1]), "theirs": show(&probe.texts[2]),
            "marker_size": marker_size, "algorithm": algo_name(algo),
            "keep-merge": sample_out.get(&Mode::Merge).map(|o| show(o)),
            "resolve-ours": sample_out.get(&Mode::Ours).map(|o| show(o)),
        }));
    }

    // ---- identities, one random option each
    let [ours, base, theirs] = probe.texts.clone();
    let idents: [(Tie, [&Vec<u8>; 3]); 4] = [
        (Tie::OursIsBase, [&base, &base, &theirs]),
        (Tie::TheirsIsBase, [&ours, &base, &base]),
        (Tie::TheirsIsOurs, [&ours, &base, &ours]),
        (Tie::TheirsIsOurs, [&theirs, &base, &theirs]),
    ];
    for (tie, [o, b, t]) in idents {
        let p = Probe {
            texts: [o.clone(), b.clone(), t.clone()],
            tie,
            mode: *r.pick(&MODES),
            marker_size,
            algo: *r.pick(&ALGOS),
            labels: probe.labels.clone(),
            flags: r.below(4),
        };
        let v = judge(&p);
        ctx.eval();
        ctx.count("merges");
        ctx.count(&format!("identity:{}", tie.name()));
        let changed_side = if tie == Tie::OursIsBase { t } else { o };
        if changed_side != b {
            ctx.count(&format!("identity_nontrivial:{}", tie.name()));
            ctx.distinct(("identity", tie.name(), p.mode, algo_name(p.algo), nl_class(changed_side, false), nl_class(b, false), marker_size.min(8)));
        }
        if v.same_change_reported_conflict {
            ctx.count("same_change_reported_as_conflict");
        }
        report(ctx, seen, &p, &v);
    }
}

/// `gxv --child C45 probe:<file>`: judge (and minimize) the probe stored in a witness file; prints JSON.
pub fn child(mode: &str) {
    let Some(path) = mode.strip_prefix("probe:") else { return };
    let doc: Value = match std::fs::read(path).ok().and_then(|b| serde_json::from_slice(&b).ok()) {
        Some(d) => d,
        None => {
            eprintln!("cannot read {path}");
            return;
        }
    };
    let pv = doc.pointer("/witness/probe").or_else(|| doc.get("probe")).unwrap_or(&doc);
    let Some(p) = Probe::from_json(pv) else {
        eprintln!("no probe in {path}");
        return;
    };
    let v = judge(&p);
    let mut outv = json!({
        "output": v.out.as_ref().map(|o| show(o)), "conflict": v.conflict,
        "findings": v.findings.iter().map(|f| json!({"sig": f.sig, "what": f.what, "detail": f.detail})).collect::<Vec<_>>(),
    });
    if let Some(f) = v.findings.first() {
        let small = minimize(&p, &f.sig);
        outv["minimized"] = small.json();
    }
    println!("{}", serde_json::to_string_pretty(&outv).unwrap());
}

pub fn run(ctx: &mut Ctx) {
    ctx.rule(
        "case = base of 0..40 (thorough: ..90) lines over a 6-word vocabulary + side-unique, empty and marker-like lines, LF/CRLF/mixed; \
         ours/theirs = base after 0..6 (..10) insert/delete/replace/duplicate/move/range-delete edits biased to first/last line and to the \
         other side's edit positions, optionally sharing a prefix of identical edits; whole-file terminator conversion and missing final \
         newline on any of the three; random labels, marker size 1..20, diff algorithm, reused token store, stale output buffer. Each case runs \
         all 6 conflict modes on the triple and 4 identity merges (ours==base, theirs==base, ours==theirs twice) with a random mode. \
         distinct = (conflict? under merge and diff3, number of diff3 conflict blocks, newline class of base/ours/theirs, which sides changed, \
         mode, algorithm, marker-size bucket) plus identity shapes",
    );
    ctx.assume("lines are compared without their LF/CRLF terminator");
    ctx.assume("side-resolution check uses gitoxide's own Keep{Diff3} rendering of the same merge to tell which other-side lines are non-conflicting; skipped (counted) when an input line could be mistaken for a marker or the reference is unavailable");
    let n = ctx.n(15_000, 600_000);
    let mut seen: HashSet<String> = HashSet::new();
    ctx.cases("triples", n, |ctx, r| one_case(ctx, r, &mut seen));
}
