//! C04 Tree editing yields the same tree as building the result from scratch.
//! Oracle (M): a nested-map model of the documented editor contract (inserting `a/b` turns a file `a` into a
//! directory, inserting a leaf at `a` drops everything below `a`, removing a directory removes its content,
//! null-id placeholders and empty directories vanish on write) is turned into tree objects by an in-harness
//! canonical writer (base_name_compare transcription + independent SHA-1); the ids of all trees the model
//! produces are cross-checked with `git mktree --batch` (G). Every `write()` (editor and cursor) must return
//! the model's id; every tree handed to the `out` callback and every tree reachable from a returned id must be
//! strictly sorted, free of null ids and (below the root) non-empty. Histories run through the plumbing editor
//! (`gix_object::tree::Editor`, in-memory store seeded with git-created trees) and through `gix::object::tree::Editor`
//! on a real repository. Witnesses are shrunk (ops removed while the same signature persists).
use crate::fw::{self, git, guard, hex, show, Ctx, Rng};
use bstr::{BString, ByteSlice};
use gix_hash::ObjectId;
use gix_object::tree::EntryKind;
use gix_object::Tree;
use serde_json::{json, Value};
use std::cell::RefCell;
use std::cmp::Ordering;
use std::collections::{BTreeMap, BTreeSet, HashMap};

pub fn child(_mode: &str) {}

type Name = Vec<u8>;

const NAMES: &[&[u8]] = &[b"a", b"b", b"a-b", b"a.b", b"a0", b"c"];

fn null() -> ObjectId {
    ObjectId::null(gix_hash::Kind::Sha1)
}
fn empty_tree() -> ObjectId {
    ObjectId::empty_tree(gix_hash::Kind::Sha1)
}

fn mode_of(k: EntryKind) -> (&'static str, &'static str) {
    match k {
        EntryKind::Tree => ("40000", "tree"),
        EntryKind::Blob => ("100644", "blob"),
        EntryKind::BlobExecutable => ("100755", "blob"),
        EntryKind::Link => ("120000", "blob"),
        EntryKind::Commit => ("160000", "commit"),
    }
}
fn kind_name(k: EntryKind) -> &'static str {
    match k {
        EntryKind::Tree => "tree",
        EntryKind::Blob => "blob",
        EntryKind::BlobExecutable => "exe",
        EntryKind::Link => "link",
        EntryKind::Commit => "commit",
    }
}

/// git's `base_name_compare`
fn base_name_compare(n1: &[u8], dir1: bool, n2: &[u8], dir2: bool) -> Ordering {
    let len = n1.len().min(n2.len());
    let c = n1[..len].cmp(&n2[..len]);
    if c != Ordering::Equal {
        return c;
    }
    let mut c1 = n1.get(len).copied().unwrap_or(0);
    let mut c2 = n2.get(len).copied().unwrap_or(0);
    if c1 == 0 && dir1 {
        c1 = b'/';
    }
    if c2 == 0 && dir2 {
        c2 = b'/';
    }
    c1.cmp(&c2)
}

// ------------------------------------------------------------------ model

#[derive(Clone, Debug, PartialEq)]
enum Node {
    Leaf(EntryKind, ObjectId),
    Dir(BTreeMap<Name, Node>),
}

type RawEntry = (u32, Name, ObjectId);

fn serialize(ents: &[(Name, EntryKind, ObjectId)]) -> Vec<u8> {
    let mut out = Vec::new();
    for (n, k, id) in ents {
        out.extend_from_slice(mode_of(*k).0.as_bytes());
        out.push(b' ');
        out.extend_from_slice(n);
        out.push(0);
        out.extend_from_slice(id.as_bytes());
    }
    out
}

/// write a directory bottom-up; `None` if it is empty after pruning. All produced trees go to `out` (children first).
fn materialize(dir: &BTreeMap<Name, Node>, out: &mut Vec<(ObjectId, Vec<u8>)>) -> Option<ObjectId> {
    let mut ents: Vec<(Name, EntryKind, ObjectId)> = Vec::new();
    for (name, node) in dir {
        match node {
            Node::Leaf(k, id) => {
                if !id.is_null() {
                    ents.push((name.clone(), *k, *id));
                }
            }
            Node::Dir(d) => {
                if let Some(id) = materialize(d, out) {
                    ents.push((name.clone(), EntryKind::Tree, id));
                }
            }
        }
    }
    if ents.is_empty() {
        return None;
    }
    ents.sort_by(|a, b| base_name_compare(&a.0, a.1 == EntryKind::Tree, &b.0, b.1 == EntryKind::Tree));
    let bytes = serialize(&ents);
    let id = ObjectId::from(fw::git_oid("tree", &bytes));
    out.push((id, bytes));
    Some(id)
}

fn flatten(dir: &BTreeMap<Name, Node>, prefix: &mut Vec<u8>, out: &mut BTreeMap<Vec<u8>, (String, String)>) {
    for (name, node) in dir {
        let l = prefix.len();
        if l > 0 {
            prefix.push(b'/');
        }
        prefix.extend_from_slice(name);
        match node {
            Node::Leaf(k, id) => {
                if !id.is_null() {
                    out.insert(prefix.clone(), (kind_name(*k).to_string(), id.to_string()));
                }
            }
            Node::Dir(d) => flatten(d, prefix, out),
        }
        prefix.truncate(l);
    }
}

fn join(path: &[Name]) -> Vec<u8> {
    let mut v = Vec::new();
    for (i, c) in path.iter().enumerate() {
        if i > 0 {
            v.push(b'/');
        }
        v.extend_from_slice(c);
    }
    v
}

#[derive(Clone, Debug)]
enum Edit {
    Upsert { path: Vec<Name>, kind: EntryKind, id: ObjectId },
    Remove { path: Vec<Name> },
    Write,
}
#[derive(Clone, Debug)]
enum Op {
    E(Edit),
    Cursor { path: Vec<Name>, edits: Vec<Edit> },
    SetRoot(ObjectId),
}

#[derive(Clone, Debug)]
struct History {
    base: ObjectId,
    ops: Vec<Op>,
}

/// everything the harness created up front (shared by model, store and repository)
#[derive(Default)]
struct Env {
    /// tree id -> model node (always `Dir`)
    known_nodes: HashMap<ObjectId, Node>,
    /// tree id -> raw bytes
    known_bytes: HashMap<ObjectId, Vec<u8>>,
}

#[derive(PartialEq, Debug)]
enum Expect {
    Ok,
    ErrEmpty,
    OkOrErrEmpty,
    Id(Option<ObjectId>), // None: tainted, do not compare
}

struct Model<'e> {
    env: &'e Env,
    root: BTreeMap<Name, Node>,
    tainted: Option<&'static str>,
    /// `Editor::write()` of the plumbing editor forgets all loaded subtrees, the gix wrapper (cursor write at the root) does not
    write_clears_all: bool,
    // --- bookkeeping that only *classifies* witnesses (mirrors which subtrees the editor holds in memory)
    /// directories the editor has loaded (traversed into) since the last write
    loaded: BTreeSet<Vec<u8>>,
    /// loaded directories whose entry was overwritten or removed afterwards
    stale: BTreeSet<Vec<u8>>,
    /// tree entries with null id created as last path component and never entered since
    null_tree_placeholders: BTreeSet<Vec<u8>>,
    trig_recreated: bool,
    trig_cursor_at_existing_dir: bool,
    trig_through_null_tree: bool,
    // statistics for distinctness
    last_relation: &'static str,
    last_type_change: bool,
}

fn is_below(p: &[u8], dir: &[u8]) -> bool {
    dir.is_empty() || (p.len() > dir.len() && p.starts_with(dir) && p[dir.len()] == b'/')
}

impl<'e> Model<'e> {
    fn new(env: &'e Env, base: ObjectId, write_clears_all: bool) -> Self {
        let mut m = Model {
            env,
            root: BTreeMap::new(),
            tainted: None,
            write_clears_all,
            loaded: BTreeSet::new(),
            stale: BTreeSet::new(),
            null_tree_placeholders: BTreeSet::new(),
            trig_recreated: false,
            trig_cursor_at_existing_dir: false,
            trig_through_null_tree: false,
            last_relation: "",
            last_type_change: false,
        };
        m.set_root(base);
        m
    }
    fn expand(&self, id: &ObjectId) -> BTreeMap<Name, Node> {
        if *id == empty_tree() {
            return BTreeMap::new();
        }
        match self.env.known_nodes.get(id) {
            Some(Node::Dir(d)) => d.clone(),
            _ => panic!("harness: unknown tree {id}"),
        }
    }
    fn set_root(&mut self, id: ObjectId) {
        self.root = self.expand(&id);
        self.tainted = None;
        self.loaded.clear();
        self.stale.clear();
        self.null_tree_placeholders.clear();
        self.trig_recreated = false;
        self.trig_cursor_at_existing_dir = false;
        self.trig_through_null_tree = false;
    }
    /// which suspicious situations the history went through so far (classifies the witness, not the verdict)
    fn trigger(&self) -> String {
        let mut v = Vec::new();
        if self.trig_recreated {
            v.push("dir-replaced-then-recreated");
        }
        if self.trig_cursor_at_existing_dir {
            v.push("cursor_at-existing-dir");
        }
        if self.trig_through_null_tree {
            v.push("through-null-tree-placeholder");
        }
        if v.is_empty() {
            "none".into()
        } else {
            v.join("+")
        }
    }
    /// the entry of the directory at `key` was overwritten or removed
    fn dir_dropped(&mut self, key: &[u8]) {
        let gone: Vec<Vec<u8>> = self.loaded.iter().filter(|p| p.as_slice() == key || is_below(p, key)).cloned().collect();
        for p in gone {
            self.loaded.remove(&p);
            self.stale.insert(p);
        }
    }
    /// a directory exists (again) at `key`
    fn dir_exists_now(&mut self, key: &[u8]) {
        if self.stale.contains(key) {
            self.trig_recreated = true;
        }
    }
    /// the editor walks into the existing directory at `key`
    fn entering(&mut self, key: Vec<u8>, looked_up: bool) {
        if looked_up && self.null_tree_placeholders.contains(&key) && !self.loaded.contains(&key) && !self.stale.contains(&key) {
            self.trig_through_null_tree = true;
        }
        if self.stale.remove(&key) {
            // the stale copy is what the editor continues with
            self.trig_recreated = true;
        }
        self.loaded.insert(key);
    }
    /// make every component of `path` a directory (creating or converting leaves), return it.
    /// `cursor_target`: the last component is the target of `cursor_at` (made a tree, but not looked up)
    fn dir_at_mut(&mut self, path: &[Name], cursor_target: bool) -> &mut BTreeMap<Name, Node> {
        let mut created = Vec::new();
        {
            let mut cur = &mut self.root;
            for i in 0..path.len() {
                let e = cur.entry(path[i].clone()).or_insert_with(|| {
                    created.push(i);
                    Node::Dir(BTreeMap::new())
                });
                if let Node::Leaf(..) = e {
                    *e = Node::Dir(BTreeMap::new());
                    created.push(i);
                    self.last_type_change = true;
                }
                cur = match e {
                    Node::Dir(d) => d,
                    _ => unreachable!(),
                };
            }
        }
        for i in 0..path.len() {
            let p = join(&path[..=i]);
            let is_target = cursor_target && i + 1 == path.len();
            if created.contains(&i) {
                self.dir_exists_now(&p);
                self.entering(p, false);
            } else {
                if is_target {
                    self.null_tree_placeholders.remove(&p);
                }
                self.entering(p, !is_target);
            }
        }
        let mut cur = &mut self.root;
        for c in path {
            cur = match cur.get_mut(c) {
                Some(Node::Dir(d)) => d,
                _ => unreachable!(),
            };
        }
        cur
    }
    fn dir_at(&self, path: &[Name]) -> Option<&BTreeMap<Name, Node>> {
        let mut cur = &self.root;
        for c in path {
            cur = match cur.get(c) {
                Some(Node::Dir(d)) => d,
                _ => return None,
            };
        }
        Some(cur)
    }
    fn relation(&self, full: &[Name]) -> &'static str {
        let mut cur = &self.root;
        for (i, c) in full.iter().enumerate() {
            match cur.get(c) {
                None => {
                    return if self.stale.contains(&join(&full[..=i])) { "below-dropped" } else { "absent" };
                }
                Some(Node::Leaf(..)) => return if i + 1 == full.len() { "leaf" } else { "through-leaf" },
                Some(Node::Dir(d)) => {
                    if i + 1 == full.len() {
                        return if d.is_empty() { "empty-dir" } else { "dir" };
                    }
                    cur = d;
                }
            }
        }
        "root"
    }
    /// `cursor_at(path)` on a model without empty components in `path`
    fn cursor_at(&mut self, path: &[Name]) {
        let key = join(path);
        if self.relation(path) == "dir" && !self.loaded.contains(&key) && !self.stale.contains(&key) {
            self.trig_cursor_at_existing_dir = true;
        }
        self.dir_at_mut(path, true);
    }
    /// the walk of an edit that fails at the empty component `path[i]` still enters the directories before it
    fn walk_before_empty(&mut self, prefix: &[Name], path: &[Name], i: usize) {
        let mut full = prefix.to_vec();
        for c in &path[..i] {
            full.push(c.clone());
            if self.dir_at(&full).is_none() {
                break;
            }
            self.entering(join(&full), true);
        }
    }
    fn written(&mut self, prefix: &[Name]) {
        let key = join(prefix);
        if prefix.is_empty() && self.write_clears_all {
            self.stale.clear();
        }
        self.loaded.retain(|p| !is_below(p, &key));
        self.null_tree_placeholders.retain(|p| !is_below(p, &key));
    }
    fn expected_id(&self, prefix: &[Name], trees: &mut Vec<(ObjectId, Vec<u8>)>) -> Option<ObjectId> {
        if self.tainted.is_some() {
            return None;
        }
        let d = self.dir_at(prefix).expect("cursor dir exists in model");
        Some(materialize(d, trees).unwrap_or_else(empty_tree))
    }
    /// apply an edit below `prefix` (which exists as a directory)
    fn apply(&mut self, prefix: &[Name], e: &Edit, trees: &mut Vec<(ObjectId, Vec<u8>)>) -> Expect {
        self.last_type_change = false;
        match e {
            Edit::Write => {
                self.last_relation = "write";
                let id = self.expected_id(prefix, trees);
                self.written(prefix);
                Expect::Id(id)
            }
            Edit::Upsert { path, kind, id } => {
                if let Some(i) = path.iter().position(|c| c.is_empty()) {
                    self.last_relation = "empty-component";
                    if i > 0 {
                        self.tainted = Some("edit failed half-way (empty component after the first)");
                        self.walk_before_empty(prefix, path, i);
                    }
                    return Expect::ErrEmpty;
                }
                let mut full = prefix.to_vec();
                full.extend_from_slice(path);
                self.last_relation = self.relation(&full);
                let (last, parents) = full.split_last().expect("non-empty path");
                let new = match kind {
                    EntryKind::Tree => {
                        if id.is_null() {
                            Node::Dir(BTreeMap::new())
                        } else if *id == empty_tree() {
                            self.tainted = Some("explicit empty tree upserted (kept by the editor, not expressible as a set of paths)");
                            Node::Dir(BTreeMap::new())
                        } else {
                            Node::Dir(self.expand(id))
                        }
                    }
                    k => Node::Leaf(*k, *id),
                };
                let new_is_dir = matches!(new, Node::Dir(_));
                let key = join(&full);
                let old = self.dir_at_mut(parents, false).insert(last.clone(), new);
                match old {
                    Some(Node::Dir(_)) => {
                        self.dir_dropped(&key);
                        if !new_is_dir {
                            self.last_type_change = true;
                        }
                    }
                    Some(Node::Leaf(..)) => {
                        if new_is_dir {
                            self.last_type_change = true;
                        }
                    }
                    None => {}
                }
                if new_is_dir {
                    self.dir_exists_now(&key);
                }
                if *kind == EntryKind::Tree && id.is_null() {
                    self.null_tree_placeholders.insert(key);
                } else {
                    self.null_tree_placeholders.remove(&key);
                }
                Expect::Ok
            }
            Edit::Remove { path } => {
                if let Some(i) = path.iter().position(|c| c.is_empty()) {
                    self.last_relation = "empty-component";
                    // a removal never changes anything on its way down, and it may stop early (entry absent)
                    // before it sees the empty component
                    self.walk_before_empty(prefix, path, i);
                    return if i == 0 { Expect::ErrEmpty } else { Expect::OkOrErrEmpty };
                }
                let mut full = prefix.to_vec();
                full.extend_from_slice(path);
                self.last_relation = self.relation(&full);
                let (last, parents) = full.split_last().expect("non-empty path");
                let key = join(&full);
                for i in prefix.len()..parents.len() {
                    if self.dir_at(&parents[..=i]).is_none() {
                        return Expect::Ok;
                    }
                    self.entering(join(&parents[..=i]), true);
                }
                let mut cur = &mut self.root;
                for c in parents {
                    cur = match cur.get_mut(c) {
                        Some(Node::Dir(d)) => d,
                        _ => return Expect::Ok,
                    };
                }
                let removed_dir = matches!(cur.remove(last), Some(Node::Dir(_)));
                if removed_dir {
                    self.dir_dropped(&key);
                    self.last_type_change = true;
                }
                self.null_tree_placeholders.remove(&key);
                Expect::Ok
            }
        }
    }
}

// ------------------------------------------------------------------ drivers

#[derive(Debug)]
enum EdErr {
    Empty,
    Other(String),
}

trait EdOps {
    fn upsert(&mut self, path: &[Name], kind: EntryKind, id: ObjectId) -> Result<(), EdErr>;
    fn remove(&mut self, path: &[Name]) -> Result<(), EdErr>;
    fn write(&mut self) -> Result<ObjectId, EdErr>;
}
trait Driver: EdOps {
    fn with_cursor(&mut self, path: &[Name], f: &mut dyn FnMut(&mut dyn EdOps)) -> Result<(), EdErr>;
    fn set_root(&mut self, id: ObjectId) -> Result<(), EdErr>;
    fn read_tree(&self, id: &ObjectId) -> Option<Vec<u8>>;
    /// problems seen by the `out` callback since the last call
    fn take_out_problems(&mut self) -> Vec<(&'static str, String)>;
    fn name(&self) -> &'static str;
}

fn conv_err(e: gix_object::tree::editor::Error) -> EdErr {
    match e {
        gix_object::tree::editor::Error::EmptyPathComponent => EdErr::Empty,
        other => EdErr::Other(format!("{other:?}")),
    }
}

// --- plumbing

#[derive(Default)]
struct Store {
    trees: RefCell<HashMap<ObjectId, Vec<u8>>>,
    /// per write() call: (n_entries) of every tree handed to out, in order, plus problems
    calls: RefCell<Vec<(ObjectId, usize)>>,
    problems: RefCell<Vec<(&'static str, String)>>,
    out_calls_total: RefCell<u64>,
}

impl gix_object::Find for Store {
    fn try_find<'a>(&self, id: &gix_hash::oid, buffer: &'a mut Vec<u8>) -> Result<Option<gix_object::Data<'a>>, gix_object::find::Error> {
        match self.trees.borrow().get(&id.to_owned()) {
            Some(b) => {
                buffer.clear();
                buffer.extend_from_slice(b);
                Ok(Some(gix_object::Data { kind: gix_object::Kind::Tree, data: &*buffer }))
            }
            None => Ok(None),
        }
    }
}

fn describe_tree(t: &Tree) -> String {
    t.entries
        .iter()
        .map(|e| format!("{}:{}{}", e.mode.as_str(), show(&e.filename), if e.oid.is_null() { "(null)" } else { "" }))
        .collect::<Vec<_>>()
        .join(" ")
}

impl Store {
    /// the `out` callback
    fn put(&self, t: &Tree) -> ObjectId {
        *self.out_calls_total.borrow_mut() += 1;
        for w in t.entries.windows(2) {
            let c = base_name_compare(&w[0].filename, w[0].mode.is_tree(), &w[1].filename, w[1].mode.is_tree());
            if w[0].filename == w[1].filename {
                self.problems.borrow_mut().push(("duplicate-name", describe_tree(t)));
            } else if c != Ordering::Less {
                self.problems.borrow_mut().push(("unsorted", describe_tree(t)));
            }
        }
        if t.entries.iter().any(|e| e.oid.is_null()) {
            self.problems.borrow_mut().push(("null-id", describe_tree(t)));
        }
        let ents: Vec<(Name, EntryKind, ObjectId)> = t.entries.iter().map(|e| (e.filename.to_vec(), e.mode.kind(), e.oid)).collect();
        let bytes = serialize(&ents);
        let id = ObjectId::from(fw::git_oid("tree", &bytes));
        self.calls.borrow_mut().push((id, t.entries.len()));
        self.trees.borrow_mut().insert(id, bytes);
        id
    }
    /// after a write returned `id`: all but the last call must be non-empty, the last is the returned root
    fn finish_write(&self, returned: &ObjectId) {
        let calls = std::mem::take(&mut *self.calls.borrow_mut());
        if let Some((last, rest)) = calls.split_last() {
            if rest.iter().any(|c| c.1 == 0) {
                self.problems.borrow_mut().push(("empty-subtree-written", String::new()));
            }
            if last.0 != *returned {
                self.problems.borrow_mut().push(("returned-id-is-not-last-out-call", String::new()));
            }
        } else {
            self.problems.borrow_mut().push(("write-without-out-call", String::new()));
        }
    }
}

fn comps(path: &[Name]) -> impl Iterator<Item = &bstr::BStr> {
    path.iter().map(|c| c.as_bstr())
}

struct PEd<'a> {
    ed: gix_object::tree::Editor<'a>,
    store: &'a Store,
}
struct PCur<'c, 'a> {
    cur: gix_object::tree::editor::Cursor<'c, 'a>,
    store: &'a Store,
}
impl EdOps for PEd<'_> {
    fn upsert(&mut self, path: &[Name], kind: EntryKind, id: ObjectId) -> Result<(), EdErr> {
        self.ed.upsert(comps(path), kind, id).map(|_| ()).map_err(conv_err)
    }
    fn remove(&mut self, path: &[Name]) -> Result<(), EdErr> {
        self.ed.remove(comps(path)).map(|_| ()).map_err(conv_err)
    }
    fn write(&mut self) -> Result<ObjectId, EdErr> {
        let store = self.store;
        let id = self.ed.write(|t| Ok::<_, std::convert::Infallible>(store.put(t))).expect("infallible");
        store.finish_write(&id);
        Ok(id)
    }
}
impl EdOps for PCur<'_, '_> {
    fn upsert(&mut self, path: &[Name], kind: EntryKind, id: ObjectId) -> Result<(), EdErr> {
        self.cur.upsert(comps(path), kind, id).map(|_| ()).map_err(conv_err)
    }
    fn remove(&mut self, path: &[Name]) -> Result<(), EdErr> {
        self.cur.remove(comps(path)).map(|_| ()).map_err(conv_err)
    }
    fn write(&mut self) -> Result<ObjectId, EdErr> {
        let store = self.store;
        let id = self.cur.write(|t| Ok::<_, std::convert::Infallible>(store.put(t))).expect("infallible");
        store.finish_write(&id);
        Ok(id)
    }
}
impl Driver for PEd<'_> {
    fn with_cursor(&mut self, path: &[Name], f: &mut dyn FnMut(&mut dyn EdOps)) -> Result<(), EdErr> {
        let store = self.store;
        let cur = if path.is_empty() { self.ed.to_cursor() } else { self.ed.cursor_at(comps(path)).map_err(conv_err)? };
        let mut c = PCur { cur, store };
        f(&mut c);
        Ok(())
    }
    fn set_root(&mut self, id: ObjectId) -> Result<(), EdErr> {
        let t = decode_owned(&self.read_tree(&id).ok_or_else(|| EdErr::Other("harness: unknown root".into()))?)?;
        self.ed.set_root(t);
        Ok(())
    }
    fn read_tree(&self, id: &ObjectId) -> Option<Vec<u8>> {
        if *id == empty_tree() {
            return Some(Vec::new());
        }
        self.store.trees.borrow().get(id).cloned()
    }
    fn take_out_problems(&mut self) -> Vec<(&'static str, String)> {
        std::mem::take(&mut *self.store.problems.borrow_mut())
    }
    fn name(&self) -> &'static str {
        "plumbing"
    }
}

fn decode_owned(bytes: &[u8]) -> Result<Tree, EdErr> {
    gix_object::TreeRef::from_bytes(bytes).map(Into::into).map_err(|e| EdErr::Other(format!("harness: tree decode: {e}")))
}

// --- gix

fn to_bpath(path: &[Name]) -> BString {
    BString::from(join(path))
}

struct GEd<'r> {
    ed: gix::object::tree::Editor<'r>,
    repo: &'r gix::Repository,
}
struct GCur<'c, 'r> {
    cur: gix::object::tree::editor::Cursor<'c, 'r>,
}
impl EdOps for GEd<'_> {
    fn upsert(&mut self, path: &[Name], kind: EntryKind, id: ObjectId) -> Result<(), EdErr> {
        self.ed.upsert(to_bpath(path), kind, id).map(|_| ()).map_err(conv_err)
    }
    fn remove(&mut self, path: &[Name]) -> Result<(), EdErr> {
        self.ed.remove(to_bpath(path)).map(|_| ()).map_err(conv_err)
    }
    fn write(&mut self) -> Result<ObjectId, EdErr> {
        self.ed.write().map(|id| id.detach()).map_err(|e| EdErr::Other(format!("{e:?}")))
    }
}
impl EdOps for GCur<'_, '_> {
    fn upsert(&mut self, path: &[Name], kind: EntryKind, id: ObjectId) -> Result<(), EdErr> {
        self.cur.upsert(to_bpath(path), kind, id).map(|_| ()).map_err(conv_err)
    }
    fn remove(&mut self, path: &[Name]) -> Result<(), EdErr> {
        self.cur.remove(to_bpath(path)).map(|_| ()).map_err(conv_err)
    }
    fn write(&mut self) -> Result<ObjectId, EdErr> {
        self.cur.write().map(|id| id.detach()).map_err(|e| EdErr::Other(format!("{e:?}")))
    }
}
impl Driver for GEd<'_> {
    fn with_cursor(&mut self, path: &[Name], f: &mut dyn FnMut(&mut dyn EdOps)) -> Result<(), EdErr> {
        let cur = if path.is_empty() { self.ed.to_cursor() } else { self.ed.cursor_at(to_bpath(path)).map_err(conv_err)? };
        let mut c = GCur { cur };
        f(&mut c);
        Ok(())
    }
    fn set_root(&mut self, id: ObjectId) -> Result<(), EdErr> {
        let t = self.repo.find_tree(id).map_err(|e| EdErr::Other(format!("harness: find_tree: {e}")))?;
        self.ed.set_root(&t).map(|_| ()).map_err(|e| EdErr::Other(format!("{e:?}")))
    }
    fn read_tree(&self, id: &ObjectId) -> Option<Vec<u8>> {
        if *id == empty_tree() {
            return Some(Vec::new());
        }
        let o = self.repo.try_find_object(*id).ok()??;
        if o.kind != gix_object::Kind::Tree {
            return None;
        }
        Some(o.data.clone())
    }
    fn take_out_problems(&mut self) -> Vec<(&'static str, String)> {
        Vec::new()
    }
    fn name(&self) -> &'static str {
        "gix"
    }
}

// ------------------------------------------------------------------ audit of actual results

fn parse_tree(bytes: &[u8]) -> Option<Vec<RawEntry>> {
    let mut out = Vec::new();
    let mut i = 0;
    while i < bytes.len() {
        let sp = i + bytes[i..].iter().position(|b| *b == b' ')?;
        let mode = u32::from_str_radix(std::str::from_utf8(&bytes[i..sp]).ok()?, 8).ok()?;
        let nul = sp + 1 + bytes[sp + 1..].iter().position(|b| *b == 0)?;
        let name = bytes[sp + 1..nul].to_vec();
        if bytes.len() < nul + 21 {
            return None;
        }
        let id = ObjectId::from_bytes_or_panic(&bytes[nul + 1..nul + 21]);
        out.push((mode, name, id));
        i = nul + 21;
    }
    Some(out)
}

fn kind_of_mode(m: u32) -> &'static str {
    match m {
        0o40000 => "tree",
        0o100644 => "blob",
        0o100755 => "exe",
        0o120000 => "link",
        0o160000 => "commit",
        _ => "other",
    }
}

/// walk the tree at `id`; returns flat leaves and structural anomalies
fn audit(d: &dyn Driver, id: &ObjectId, prefix: &mut Vec<u8>, flat: &mut BTreeMap<Vec<u8>, (String, String)>, anomalies: &mut BTreeSet<&'static str>, depth: usize) {
    let Some(bytes) = d.read_tree(id) else {
        anomalies.insert("tree-object-missing");
        return;
    };
    let Some(ents) = parse_tree(&bytes) else {
        anomalies.insert("tree-object-unparsable");
        return;
    };
    if ents.is_empty() && depth > 0 {
        anomalies.insert("empty-subtree-entry");
    }
    for w in ents.windows(2) {
        if w[0].1 == w[1].1 {
            anomalies.insert("duplicate-name");
        } else if base_name_compare(&w[0].1, w[0].0 == 0o40000, &w[1].1, w[1].0 == 0o40000) != Ordering::Less {
            anomalies.insert("unsorted");
        }
    }
    for (mode, name, oid) in ents {
        let l = prefix.len();
        if l > 0 {
            prefix.push(b'/');
        }
        prefix.extend_from_slice(&name);
        if oid.is_null() {
            anomalies.insert("null-id");
        } else if mode == 0o40000 {
            if depth < 12 {
                audit(d, &oid, prefix, flat, anomalies, depth + 1);
            }
        } else {
            flat.insert(prefix.clone(), (kind_of_mode(mode).to_string(), oid.to_string()));
        }
        prefix.truncate(l);
    }
}

// ------------------------------------------------------------------ running a history

#[derive(Debug, Clone)]
struct Finding {
    /// failure kind (what went wrong, which driver); preserved while shrinking
    kind: String,
    /// situations the (minimal) history went through; together with `kind` this is the signature
    trigger: String,
    what: String,
    detail: Value,
}
impl Finding {
    fn signature(&self) -> String {
        if self.kind.starts_with("HARNESS") {
            self.kind.clone()
        } else {
            format!("{}|{}", self.kind, self.trigger)
        }
    }
}

#[derive(Default)]
struct Stats {
    writes_compared: u64,
    cursor_writes_compared: u64,
    writes_tainted: u64,
    empty_component_errors: u64,
    ops: u64,
    type_changes: u64,
    recreated: u64,
    cursor_at_unloaded_dir: u64,
    out_calls: u64,
    shape: Vec<(&'static str, &'static str, bool)>,
    expected_trees: Vec<(ObjectId, Vec<u8>)>,
}

fn diff_class(model: &BTreeMap<Vec<u8>, (String, String)>, actual: &BTreeMap<Vec<u8>, (String, String)>) -> (&'static str, Value) {
    let extra: Vec<_> = actual.keys().filter(|k| !model.contains_key(*k)).map(|k| show(k)).collect();
    let missing: Vec<_> = model.keys().filter(|k| !actual.contains_key(*k)).map(|k| show(k)).collect();
    let changed: Vec<_> = model.iter().filter(|(k, v)| actual.get(*k).map_or(false, |a| a != *v)).map(|(k, _)| show(k)).collect();
    let class = match (!extra.is_empty(), !missing.is_empty(), !changed.is_empty()) {
        (true, false, false) => "resurrected-or-extra-entries",
        (false, true, false) => "lost-entries",
        (false, false, true) => "wrong-entry-value",
        (false, false, false) => "same-leaves-different-trees",
        _ => "mixed",
    };
    (class, json!({"only_in_editor_result": extra, "only_in_model": missing, "different_value": changed}))
}

fn edit_json(e: &Edit) -> Value {
    match e {
        Edit::Upsert { path, kind, id } => json!({"upsert": show(&join(path)), "kind": kind_name(*kind), "id": if id.is_null() { "null".to_string() } else if *id == empty_tree() {"empty-tree".to_string()} else { id.to_string() }}),
        Edit::Remove { path } => json!({"remove": show(&join(path))}),
        Edit::Write => json!("write"),
    }
}
fn history_json(h: &History) -> Value {
    json!({
        "base_tree": if h.base == empty_tree() { "empty".to_string() } else { h.base.to_string() },
        "ops": h.ops.iter().map(|op| match op {
            Op::E(e) => edit_json(e),
            Op::Cursor { path, edits } => json!({"cursor_at": show(&join(path)), "edits": edits.iter().map(edit_json).collect::<Vec<_>>()}),
            Op::SetRoot(id) => json!({"set_root": if *id == empty_tree() { "empty".to_string() } else { id.to_string() }}),
        }).collect::<Vec<_>>(),
    })
}

/// check one edit's outcome against the model's expectation
#[allow(clippy::too_many_arguments)]
fn judge(
    drv: &'static str,
    what_op: &'static str,
    got: Result<Option<ObjectId>, EdErr>,
    want: Expect,
    model: &Model<'_>,
    prefix: &[Name],
    audit_fn: &dyn Fn(&ObjectId) -> (BTreeMap<Vec<u8>, (String, String)>, BTreeSet<&'static str>),
    out_problems: Vec<(&'static str, String)>,
    stats: &mut Stats,
) -> Option<Finding> {
    let trig = model.trigger();
    for (p, desc) in &out_problems {
        if *p == "empty-subtree-written" && model.tainted.is_some() {
            continue;
        }
        return Some(Finding {
            kind: format!("out-callback|{drv}|{p}"),
            trigger: trig.clone(),
            what: format!("a tree handed to the out callback violates the canonical form: {p}"),
            detail: json!({"tree": desc}),
        });
    }
    match (got, want) {
        (Err(EdErr::Empty), Expect::ErrEmpty) => {
            stats.empty_component_errors += 1;
            None
        }
        (Err(EdErr::Empty), Expect::OkOrErrEmpty) => {
            stats.empty_component_errors += 1;
            None
        }
        (Ok(_), Expect::OkOrErrEmpty) => None,
        (Ok(_), Expect::ErrEmpty) => Some(Finding {
            kind: format!("empty-component-accepted|{drv}|{what_op}"),
            trigger: trig.clone(),
            what: "a path with an empty component was accepted".into(),
            detail: Value::Null,
        }),
        (Err(EdErr::Empty), _) => Some(Finding {
            kind: format!("unexpected-error|{drv}|EmptyPathComponent"),
            trigger: trig.clone(),
            what: "EmptyPathComponent for a path without empty component".into(),
            detail: Value::Null,
        }),
        (Err(EdErr::Other(msg)), _) => {
            let class = if msg.starts_with("harness") {
                return Some(Finding { kind: format!("HARNESS|{msg}"), trigger: String::new(), what: msg, detail: Value::Null });
            } else if msg.contains("FindExistingObject") || msg.contains("NotFound") {
                "FindExistingObject"
            } else if msg.contains("MissingObject") {
                "MissingObject"
            } else if msg.contains("InvalidFilename") {
                "InvalidFilename"
            } else {
                "other"
            };
            Some(Finding {
                kind: format!("unexpected-error|{drv}|{class}"),
                trigger: trig.clone(),
                what: format!("{what_op} failed although the documented contract allows it: {}", msg.chars().take(200).collect::<String>()),
                detail: json!({"error": msg}),
            })
        }
        (Ok(_), Expect::Ok) => None,
        (Ok(Some(actual)), Expect::Id(want)) => {
            let (flat, anomalies) = audit_fn(&actual);
            for a in &anomalies {
                if *a == "empty-subtree-entry" && model.tainted.is_some() {
                    continue;
                }
                return Some(Finding {
                    kind: format!("written-tree|{drv}|{a}"),
                    trigger: trig.clone(),
                    what: format!("the tree returned by write() is not canonical: {a}"),
                    detail: json!({"returned": actual.to_string()}),
                });
            }
            match want {
                None => {
                    stats.writes_tainted += 1;
                    None
                }
                Some(want) => {
                    if prefix.is_empty() {
                        stats.writes_compared += 1;
                    } else {
                        stats.cursor_writes_compared += 1;
                    }
                    if want == actual {
                        return None;
                    }
                    let mut mflat = BTreeMap::new();
                    flatten(model.dir_at(prefix).expect("dir"), &mut Vec::new(), &mut mflat);
                    let (class, d) = diff_class(&mflat, &flat);
                    Some(Finding {
                        kind: format!("root-id-mismatch|{drv}"),
                        trigger: trig.clone(),
                        what: format!(
                            "{what_op}() returned {actual} but the tree built from scratch for the resulting paths is {want} ({class}; history went through: {trig})"
                        ),
                        detail: json!({"editor_id": actual.to_string(), "from_scratch_id": want.to_string(), "diff": d,
                                       "model_paths": mflat.iter().map(|(k, v)| format!("{} {} {}", v.0, &v.1[..8], show(k))).collect::<Vec<_>>()}),
                    })
                }
            }
        }
        (Ok(None), Expect::Id(_)) => unreachable!(),
    }
}

fn run_ops(d: &mut dyn Driver, env: &Env, h: &History, stats: &mut Stats) -> Option<Finding> {
    let drv = d.name();
    let mut model = Model::new(env, h.base, drv == "plumbing");
    for op in &h.ops {
        stats.ops += 1;
        match op {
            Op::SetRoot(id) => {
                model.set_root(*id);
                stats.shape.push(("set_root", "", false));
                if let Err(e) = d.set_root(*id) {
                    return Some(Finding { kind: format!("HARNESS|set_root|{drv}"), trigger: String::new(), what: format!("{e:?}"), detail: Value::Null });
                }
            }
            Op::E(e) => {
                let mut trees = Vec::new();
                let want = model.apply(&[], e, &mut trees);
                stats.expected_trees.append(&mut trees);
                let (opname, got) = match e {
                    Edit::Upsert { path, kind, id } => ("upsert", d.upsert(path, *kind, *id).map(|_| None)),
                    Edit::Remove { path } => ("remove", d.remove(path).map(|_| None)),
                    Edit::Write => ("write", d.write().map(Some)),
                };
                stats.shape.push((opname, model.last_relation, model.last_type_change));
                if model.last_type_change {
                    stats.type_changes += 1;
                }
                let problems = d.take_out_problems();
                let dd: &dyn Driver = d;
                let f = judge(
                    drv,
                    opname,
                    got,
                    want,
                    &model,
                    &[],
                    &|id| {
                        let (mut flat, mut an) = (BTreeMap::new(), BTreeSet::new());
                        audit(dd, id, &mut Vec::new(), &mut flat, &mut an, 0);
                        (flat, an)
                    },
                    problems,
                    stats,
                );
                if f.is_some() {
                    return f;
                }
            }
            Op::Cursor { path, edits } => {
                stats.shape.push(("cursor_at", model.relation(path), false));
                let empty_at = path.iter().position(|c| c.is_empty());
                if let Some(i) = empty_at {
                    if i > 0 {
                        model.tainted = Some("cursor_at failed half-way (empty component after the first)");
                    }
                    model.walk_before_empty(&[], path, i);
                } else {
                    model.cursor_at(path);
                }
                // run the cursor block, collecting raw outcomes; judge afterwards (the cursor borrows the editor)
                let mut outcomes: Vec<Result<Option<ObjectId>, EdErr>> = Vec::new();
                let res = d.with_cursor(path, &mut |c| {
                    for e in edits {
                        let r = match e {
                            Edit::Upsert { path, kind, id } => c.upsert(path, *kind, *id).map(|_| None),
                            Edit::Remove { path } => c.remove(path).map(|_| None),
                            Edit::Write => c.write().map(Some),
                        };
                        let stop = matches!(r, Err(EdErr::Other(_)));
                        outcomes.push(r);
                        if stop {
                            break;
                        }
                    }
                });
                match (res, empty_at) {
                    (Err(EdErr::Empty), Some(_)) => {
                        stats.empty_component_errors += 1;
                        continue;
                    }
                    (Ok(()), Some(_)) => {
                        return Some(Finding { kind: format!("empty-component-accepted|{drv}|cursor_at"), trigger: model.trigger(), what: "cursor_at accepted an empty path component".into(), detail: Value::Null })
                    }
                    (Err(e), None) => {
                        let f = judge(drv, "cursor_at", Err(e), Expect::Ok, &model, &[], &|_| Default::default(), Vec::new(), stats);
                        return f;
                    }
                    (Err(EdErr::Other(m)), Some(_)) => {
                        return judge(drv, "cursor_at", Err(EdErr::Other(m)), Expect::Ok, &model, &[], &|_| Default::default(), Vec::new(), stats);
                    }
                    (Ok(()), None) => {}
                }
                let mut problems = d.take_out_problems();
                let dd: &dyn Driver = d;
                for (e, got) in edits.iter().zip(outcomes) {
                    stats.ops += 1;
                    let mut trees = Vec::new();
                    let want = model.apply(path, e, &mut trees);
                    stats.expected_trees.append(&mut trees);
                    let opname = match e {
                        Edit::Upsert { .. } => "cursor.upsert",
                        Edit::Remove { .. } => "cursor.remove",
                        Edit::Write => "cursor.write",
                    };
                    stats.shape.push((opname, model.last_relation, model.last_type_change));
                    if model.last_type_change {
                        stats.type_changes += 1;
                    }
                    // NOTE: ids returned by cursor writes are audited after the block; the trees they name are immutable
                    let f = judge(
                        drv,
                        opname,
                        got,
                        want,
                        &model,
                        path,
                        &|id| {
                            let (mut flat, mut an) = (BTreeMap::new(), BTreeSet::new());
                            audit(dd, id, &mut Vec::new(), &mut flat, &mut an, 0);
                            (flat, an)
                        },
                        std::mem::take(&mut problems),
                        stats,
                    );
                    if f.is_some() {
                        return f;
                    }
                }
            }
        }
    }
    if model.trig_recreated {
        stats.recreated += 1;
    }
    if model.trig_cursor_at_existing_dir {
        stats.cursor_at_unloaded_dir += 1;
    }
    None
}

fn run_plumbing(env: &Env, h: &History, stats: &mut Stats) -> Option<Finding> {
    let store = Store::default();
    *store.trees.borrow_mut() = env.known_bytes.clone();
    let root = if h.base == empty_tree() {
        Tree::default()
    } else {
        match decode_owned(&env.known_bytes[&h.base]) {
            Ok(t) => t,
            Err(e) => return Some(Finding { kind: "HARNESS|decode-base".into(), trigger: String::new(), what: format!("{e:?}"), detail: Value::Null }),
        }
    };
    let mut d = PEd { ed: gix_object::tree::Editor::new(root, &store, gix_hash::Kind::Sha1), store: &store };
    let f = run_ops(&mut d, env, h, stats);
    stats.out_calls += *store.out_calls_total.borrow();
    f
}

fn run_gix(repo: &gix::Repository, env: &Env, h: &History, stats: &mut Stats) -> Option<Finding> {
    let ed = match repo.edit_tree(h.base) {
        Ok(e) => e,
        Err(e) => return Some(Finding { kind: "HARNESS|edit_tree".into(), trigger: String::new(), what: format!("{e:?}"), detail: Value::Null }),
    };
    let mut d = GEd { ed, repo };
    run_ops(&mut d, env, h, stats)
}

/// run with panic capture; a panic inside /repo is a finding of its own
fn run_guarded(which: &str, repo: Option<&gix::Repository>, env: &Env, h: &History, stats: &mut Stats) -> Option<Finding> {
    let r = guard(|| match (which, repo) {
        ("gix", Some(repo)) => run_gix(repo, env, h, stats),
        _ => run_plumbing(env, h, stats),
    });
    match r {
        Ok(f) => f,
        Err(p) => Some(Finding {
            kind: if p.in_repo { format!("panic|{which}|{}", p.site) } else { format!("HARNESS|panic|{}", p.site) },
            trigger: "-".into(),
            what: format!("panic at {}: {}", p.site, p.message),
            detail: json!({"site": p.site, "message": p.message}),
        }),
    }
}

/// delta-debugging light: drop ops / cursor edits / base while the same signature persists
fn shrink(which: &str, repo: Option<&gix::Repository>, env: &Env, h: &History, kind: &str) -> (History, Finding) {
    let mut best = h.clone();
    let mut best_f = run_guarded(which, repo, env, &best, &mut Stats::default()).expect("reproducible");
    let mut budget = 600;
    let same = |c: &History, budget: &mut i32| -> Option<Finding> {
        *budget -= 1;
        if which == "gix" && run_guarded("plumbing", None, env, c, &mut Stats::default()).is_some() {
            // keep the witness specific to the wrapper
            return None;
        }
        run_guarded(which, repo, env, c, &mut Stats::default()).filter(|f| f.kind == kind)
    };
    if best.base != empty_tree() {
        let mut c = best.clone();
        c.base = empty_tree();
        if let Some(f) = same(&c, &mut budget) {
            best = c;
            best_f = f;
        }
    }
    let mut progress = true;
    while progress && budget > 0 {
        progress = false;
        let mut i = 0;
        while i < best.ops.len() && budget > 0 {
            let mut c = best.clone();
            c.ops.remove(i);
            if let Some(f) = same(&c, &mut budget) {
                best = c;
                best_f = f;
                progress = true;
                continue;
            }
            if let Op::Cursor { edits, .. } = &best.ops[i] {
                let mut j = 0;
                let mut n = edits.len();
                while j < n && budget > 0 {
                    let mut c = best.clone();
                    if let Op::Cursor { edits, .. } = &mut c.ops[i] {
                        edits.remove(j);
                    }
                    if let Some(f) = same(&c, &mut budget) {
                        best = c;
                        best_f = f;
                        progress = true;
                        n -= 1;
                    } else {
                        j += 1;
                    }
                }
            }
            i += 1;
        }
        // replace cursor blocks by direct edits on prefixed paths
        let mut i = 0;
        while i < best.ops.len() && budget > 0 {
            if let Op::Cursor { path, edits } = &best.ops[i] {
                if path.iter().all(|c| !c.is_empty()) {
                    let inlined: Vec<Op> = edits
                        .iter()
                        .filter_map(|e| match e {
                            Edit::Upsert { path: p, kind, id } => {
                                let mut full = path.clone();
                                full.extend(p.iter().cloned());
                                Some(Op::E(Edit::Upsert { path: full, kind: *kind, id: *id }))
                            }
                            Edit::Remove { path: p } => {
                                let mut full = path.clone();
                                full.extend(p.iter().cloned());
                                Some(Op::E(Edit::Remove { path: full }))
                            }
                            Edit::Write => None,
                        })
                        .collect();
                    let n = inlined.len();
                    let mut c = best.clone();
                    c.ops.splice(i..=i, inlined);
                    if let Some(f) = same(&c, &mut budget) {
                        best = c;
                        best_f = f;
                        progress = true;
                        i += n;
                        continue;
                    }
                }
            }
            i += 1;
        }
        // simplify paths: drop leading components of upsert/remove paths
        for i in 0..best.ops.len() {
            if budget <= 0 {
                break;
            }
            let mut c = best.clone();
            let changed = match &mut c.ops[i] {
                Op::E(Edit::Upsert { path, .. }) | Op::E(Edit::Remove { path }) if path.len() > 1 => {
                    path.remove(0);
                    true
                }
                _ => false,
            };
            if changed {
                if let Some(f) = same(&c, &mut budget) {
                    best = c;
                    best_f = f;
                    progress = true;
                }
            }
        }
    }
    (best, best_f)
}

// ------------------------------------------------------------------ generation

struct Pools {
    blobs: Vec<ObjectId>,
    commits: Vec<ObjectId>,
}

fn gen_leaf(r: &mut Rng, pools: &Pools) -> (EntryKind, ObjectId) {
    let kind = *r.pick(&[EntryKind::Blob, EntryKind::Blob, EntryKind::Blob, EntryKind::BlobExecutable, EntryKind::Link, EntryKind::Commit]);
    let id = if kind == EntryKind::Commit { *r.pick(&pools.commits) } else { *r.pick(&pools.blobs) };
    (kind, id)
}

fn rand_path(r: &mut Rng, max_depth: usize) -> Vec<Name> {
    let n = 1 + r.usize(max_depth);
    (0..n).map(|_| r.pick(NAMES).to_vec()).collect()
}

/// a random non-empty tree as model node; registers it (and all subtrees) in env; returns the root id
fn gen_known_tree(r: &mut Rng, pools: &Pools, env: &mut Env, order: &mut Vec<ObjectId>, max_depth: usize) -> ObjectId {
    loop {
        let mut root: BTreeMap<Name, Node> = BTreeMap::new();
        let n = 1 + r.usize(7);
        for _ in 0..n {
            let p = rand_path(r, max_depth);
            let (last, parents) = p.split_last().unwrap();
            let mut cur = &mut root;
            for c in parents {
                let e = cur.entry(c.clone()).or_insert_with(|| Node::Dir(BTreeMap::new()));
                if let Node::Leaf(..) = e {
                    *e = Node::Dir(BTreeMap::new());
                }
                cur = match e {
                    Node::Dir(d) => d,
                    _ => unreachable!(),
                };
            }
            let (k, id) = gen_leaf(r, pools);
            cur.insert(last.clone(), Node::Leaf(k, id));
        }
        if let Some(id) = register(&root, env, order) {
            return id;
        }
    }
}

/// materialize and remember every (sub)tree of `dir`
fn register(dir: &BTreeMap<Name, Node>, env: &mut Env, order: &mut Vec<ObjectId>) -> Option<ObjectId> {
    // prune first so that registered nodes equal what the tree object says
    fn prune(dir: &BTreeMap<Name, Node>) -> BTreeMap<Name, Node> {
        let mut out = BTreeMap::new();
        for (k, v) in dir {
            match v {
                Node::Leaf(..) => {
                    out.insert(k.clone(), v.clone());
                }
                Node::Dir(d) => {
                    let p = prune(d);
                    if !p.is_empty() {
                        out.insert(k.clone(), Node::Dir(p));
                    }
                }
            }
        }
        out
    }
    fn rec(dir: &BTreeMap<Name, Node>, env: &mut Env, order: &mut Vec<ObjectId>) -> Option<ObjectId> {
        for v in dir.values() {
            if let Node::Dir(d) = v {
                rec(d, env, order);
            }
        }
        let mut trees = Vec::new();
        let id = materialize(dir, &mut trees)?;
        let (tid, bytes) = trees.pop().unwrap();
        debug_assert_eq!(tid, id);
        if !env.known_nodes.contains_key(&id) {
            env.known_nodes.insert(id, Node::Dir(dir.clone()));
            env.known_bytes.insert(id, bytes);
            order.push(id);
        }
        Some(id)
    }
    let p = prune(dir);
    rec(&p, env, order)
}

fn gen_path(r: &mut Rng, touched: &[Vec<Name>], max_depth: usize) -> Vec<Name> {
    let mut p = if !touched.is_empty() && r.chance(7, 10) {
        let base = r.pick(touched).clone();
        match r.below(6) {
            0 | 1 => base,
            2 if base.len() > 1 => base[..base.len() - 1].to_vec(),
            3 => {
                let mut b = base;
                b.push(r.pick(NAMES).to_vec());
                b
            }
            4 => {
                let mut b = base;
                *b.last_mut().unwrap() = r.pick(NAMES).to_vec();
                b
            }
            _ => {
                let n = 1 + r.usize(base.len());
                base[..n].to_vec()
            }
        }
    } else {
        rand_path(r, max_depth.min(3))
    };
    p.truncate(max_depth);
    p
}

fn gen_edit(r: &mut Rng, pools: &Pools, known: &[ObjectId], touched: &mut Vec<Vec<Name>>, max_depth: usize, in_cursor: bool) -> Edit {
    let roll = r.below(100);
    if roll < 10 {
        return Edit::Write;
    }
    let mut path = gen_path(r, touched, if in_cursor { max_depth.saturating_sub(1).max(1) } else { max_depth });
    if !in_cursor {
        touched.push(path.clone());
    }
    if r.chance(1, 70) {
        let i = if r.chance(2, 3) { 0 } else { r.usize(path.len()) };
        path[i] = Vec::new();
    }
    if roll < 35 {
        return Edit::Remove { path };
    }
    let (kind, id) = match r.below(100) {
        0..=54 => {
            let (k, id) = gen_leaf(r, pools);
            (k, if r.chance(1, 10) { null() } else { id })
        }
        55..=72 => (EntryKind::Tree, null()),
        73..=96 if !known.is_empty() => (EntryKind::Tree, *r.pick(known)),
        97..=99 => (EntryKind::Tree, empty_tree()),
        _ => (EntryKind::Blob, *r.pick(&pools.blobs)),
    };
    Edit::Upsert { path, kind, id }
}

fn gen_history(r: &mut Rng, pools: &Pools, env: &mut Env, order: &mut Vec<ObjectId>, max_ops: usize, max_depth: usize) -> History {
    let n_known = r.usize(3);
    let mut known: Vec<ObjectId> = (0..n_known).map(|_| gen_known_tree(r, pools, env, order, max_depth.min(3))).collect();
    // subtrees of known trees are candidates too
    for k in known.clone() {
        if let Some(Node::Dir(d)) = env.known_nodes.get(&k) {
            for v in d.values() {
                if let Node::Dir(sd) = v {
                    let mut t = Vec::new();
                    if let Some(id) = materialize(sd, &mut t) {
                        known.push(id);
                    }
                }
            }
        }
    }
    let base = if known.is_empty() || r.chance(2, 5) { empty_tree() } else { *r.pick(&known) };
    let mut touched: Vec<Vec<Name>> = Vec::new();
    // paths of the base tree count as touched so that edits hit existing entries
    if let Some(Node::Dir(d)) = env.known_nodes.get(&base) {
        let mut flat = BTreeMap::new();
        flatten(d, &mut Vec::new(), &mut flat);
        for k in flat.keys().take(6) {
            touched.push(k.split(|b| *b == b'/').map(|c| c.to_vec()).collect());
        }
    }
    let n_ops = 1 + r.usize(max_ops);
    let mut ops = Vec::new();
    while ops.len() < n_ops {
        let roll = r.below(100);
        if roll < 3 && !known.is_empty() {
            ops.push(Op::SetRoot(if r.chance(1, 4) { empty_tree() } else { *r.pick(&known) }));
        } else if roll < 15 {
            let mut path = if r.chance(1, 8) { Vec::new() } else { gen_path(r, &touched, max_depth.saturating_sub(1).max(1)) };
            if !path.is_empty() && r.chance(1, 60) {
                let i = if r.chance(2, 3) { 0 } else { r.usize(path.len()) };
                path[i] = Vec::new();
            }
            if !path.is_empty() {
                touched.push(path.clone());
            }
            let n = r.usize(4);
            let mut sub_touched: Vec<Vec<Name>> = Vec::new();
            let edits = (0..n)
                .map(|_| {
                    let e = gen_edit(r, pools, &known, &mut sub_touched, max_depth, true);
                    if let Edit::Upsert { path, .. } | Edit::Remove { path } = &e {
                        sub_touched.push(path.clone());
                    }
                    e
                })
                .collect();
            ops.push(Op::Cursor { path, edits });
        } else {
            ops.push(Op::E(gen_edit(r, pools, &known, &mut touched, max_depth, false)));
        }
    }
    if !matches!(ops.last(), Some(Op::E(Edit::Write))) {
        ops.push(Op::E(Edit::Write));
    }
    History { base, ops }
}

// ------------------------------------------------------------------ git helpers

/// feed trees (children first) to `git mktree --batch`; returns the ids git printed
fn git_mktree(repo: &std::path::Path, trees: &[(ObjectId, &[u8])]) -> Result<Vec<String>, String> {
    let mut input = Vec::new();
    for (_, bytes) in trees {
        let ents = parse_tree(bytes).ok_or("harness: unparsable model tree")?;
        for (mode, name, id) in ents {
            let ty = match mode {
                0o40000 => "tree",
                0o160000 => "commit",
                _ => "blob",
            };
            input.extend_from_slice(format!("{:o} {} {}\t", mode, ty, id).as_bytes());
            input.extend_from_slice(&name);
            input.push(0);
        }
        input.push(0);
    }
    let o = git::run_in(repo, &["mktree", "--batch", "-z", "--missing"], &input).map_err(|e| format!("spawn: {e}"))?;
    if !o.ok {
        return Err(o.err_text());
    }
    let ids: Vec<String> = o.text().lines().map(|l| l.trim().to_string()).collect();
    if ids.len() != trees.len() {
        return Err(format!("{} ids for {} trees", ids.len(), trees.len()));
    }
    Ok(ids)
}

fn setup_repo(ctx: &mut Ctx) -> Option<(std::path::PathBuf, Pools)> {
    let dir = ctx.dir("repo");
    if let Err(e) = git::init(&dir, true) {
        ctx.inconclusive(&format!("git init failed: {e}"));
        return None;
    }
    let mut blobs = Vec::new();
    for content in ["zero\n", "one\n", "two\n"] {
        match git::ok_in(&dir, &["hash-object", "-w", "--stdin"], content.as_bytes()) {
            Ok(h) => blobs.push(ObjectId::from_hex(h.trim().as_bytes()).ok()?),
            Err(e) => {
                ctx.inconclusive(&e);
                return None;
            }
        }
    }
    let mut commits: Vec<ObjectId> = Vec::new();
    let listing: String = blobs.iter().enumerate().map(|(i, b)| format!("100644 blob {b}\tf{i}\n")).collect();
    let et = git::ok_in(&dir, &["mktree"], listing.as_bytes()).ok()?;
    for msg in ["c1", "c2"] {
        let mut args = vec!["commit-tree".to_string(), et.trim().to_string(), "-m".into(), msg.into()];
        if let Some(p) = commits.last() {
            args.push("-p".into());
            args.push(p.to_string());
        }
        match git::ok(&dir, &args) {
            Ok(h) => commits.push(ObjectId::from_hex(h.trim().as_bytes()).ok()?),
            Err(e) => {
                ctx.inconclusive(&e);
                return None;
            }
        }
    }
    if let Err(e) = git::ok(&dir, &["update-ref", "refs/heads/main", &commits.last()?.to_string()]) {
        ctx.inconclusive(&e);
        return None;
    }
    // permanent objects live in a pack so that loose objects can be dropped between cases
    if let Err(e) = git::ok(&dir, &["repack", "-a", "-d", "-q"]) {
        ctx.inconclusive(&e);
        return None;
    }
    drop_loose(&dir);
    for id in blobs.iter().chain(commits.iter()) {
        if !git::run(&dir, &["cat-file", "-e", &id.to_string()]).map(|o| o.ok).unwrap_or(false) {
            ctx.inconclusive("permanent objects did not end up in a pack");
            return None;
        }
    }
    Some((dir, Pools { blobs, commits }))
}

fn drop_loose(repo: &std::path::Path) {
    if let Ok(rd) = std::fs::read_dir(repo.join("objects")) {
        for d in rd.flatten() {
            if d.file_name().len() == 2 {
                let _ = std::fs::remove_dir_all(d.path());
            }
        }
    }
}

pub fn run(ctx: &mut Ctx) {
    ctx.rule(
        "case = batch of edit histories; a history = optional git-created base tree + 1..40 ops over paths of depth <= 3 built from {a, b, a-b, a.b, a0, c} \
         (70% derived from already touched paths: same, parent, child, sibling, prefix): upsert (blob/exe/link/commit, tree by known id, null-id placeholders, rare explicit empty tree), \
         remove, write, cursor_at(path){upsert/remove/write}, set_root; run through gix_object::tree::Editor (every history) and gix::object::tree::Editor (every 3rd); \
         distinct = first 10 steps of the sequence (op kind, relation of the path to the model state: absent/leaf/dir/empty-dir/through-leaf/below-dropped, type-change bit)",
    );
    ctx.assume("an upsert/cursor_at that fails with EmptyPathComponent after the first component may have applied part of the path; the rest of that history is not compared (counted as tainted)");
    ctx.assume("an explicitly upserted empty tree (documented as kept) cannot be expressed as a set of paths; such histories are only checked for panics, order and null ids until the next set_root");
    let Some((repo_dir, pools)) = setup_repo(ctx) else {
        return;
    };
    let repo = match gix::open_opts(&repo_dir, gix::open::Options::isolated()) {
        Ok(r) => Some(r),
        Err(e) => {
            ctx.inconclusive(&format!("gix::open failed: {e}"));
            None
        }
    };
    let per_case = 20usize;
    let n_cases = ctx.n(60, 6000);
    let max_ops = if ctx.quick() { 30 } else { 40 };
    let max_depth = if ctx.quick() { 3 } else { 4 };
    // signatures already established by a shrunk witness (shrinking is the expensive part)
    let established: RefCell<BTreeSet<String>> = RefCell::new(BTreeSet::new());
    ctx.cases("histories", n_cases, |ctx, r| {
        let mut env = Env::default();
        let mut order = Vec::new();
        let histories: Vec<History> = (0..per_case).map(|_| gen_history(r, &pools, &mut env, &mut order, max_ops, max_depth)).collect();
        // base trees are created by git; its ids must equal the model writer's
        let mut git_ok = false;
        if !order.is_empty() {
            let trees: Vec<(ObjectId, &[u8])> = order.iter().map(|id| (*id, env.known_bytes[id].as_slice())).collect();
            match git_mktree(&repo_dir, &trees) {
                Ok(ids) => {
                    git_ok = true;
                    ctx.count_n("base_trees_created_by_git", ids.len() as u64);
                    for (i, gid) in ids.iter().enumerate() {
                        if *gid != trees[i].0.to_string() {
                            git_ok = false;
                            ctx.inconclusive("model tree writer disagrees with git mktree on a base tree");
                        }
                    }
                }
                Err(e) => ctx.inconclusive(&format!("git mktree (base trees) failed: {}", e.chars().take(200).collect::<String>())),
            }
        } else {
            git_ok = true;
        }
        let mut expected: HashMap<ObjectId, Vec<u8>> = HashMap::new();
        let mut expected_order: Vec<ObjectId> = Vec::new();
        for (hi, h) in histories.iter().enumerate() {
            let mut report = |ctx: &mut Ctx, which: &str, f: Finding| {
                if f.kind.starts_with("HARNESS") {
                    ctx.inconclusive(&format!("{}: {}", f.kind, f.what));
                    return;
                }
                if !f.trigger.contains('+') && established.borrow().contains(&f.signature()) {
                    // same kind, and the history went through exactly one suspicious situation: same class, count only
                    ctx.violation(&f.signature(), &f.what, Value::Null);
                    return;
                }
                let (small, f) = shrink(which, repo.as_ref(), &env, h, &f.kind);
                established.borrow_mut().insert(f.signature());
                ctx.violation(&f.signature(), &f.what, json!({"minimal_history": history_json(&small), "detail": f.detail, "original_history": history_json(h)}));
            };
            ctx.eval();
            let mut stats = Stats::default();
            let f = run_guarded("plumbing", None, &env, h, &mut stats);
            ctx.count_n("ops", stats.ops);
            ctx.count_n("writes_compared", stats.writes_compared);
            ctx.count_n("cursor_writes_compared", stats.cursor_writes_compared);
            ctx.count_n("writes_not_compared_tainted", stats.writes_tainted);
            ctx.count_n("empty_component_errors", stats.empty_component_errors);
            ctx.count_n("type_changes", stats.type_changes);
            ctx.count_n("histories_recreating_a_dropped_dir", stats.recreated);
            ctx.count_n("histories_with_cursor_at_unloaded_existing_dir", stats.cursor_at_unloaded_dir);
            ctx.count_n("trees_through_out_callback", stats.out_calls);
            ctx.distinct(stats.shape.iter().take(10).cloned().collect::<Vec<_>>());
            for (id, b) in stats.expected_trees.drain(..) {
                if !expected.contains_key(&id) && !env.known_bytes.contains_key(&id) {
                    expected.insert(id, b);
                    expected_order.push(id);
                }
            }
            if ctx.want_sample() {
                ctx.sample(json!({"history": history_json(h), "plumbing_verdict": f.as_ref().map(|f| f.signature()).unwrap_or_else(|| "held".into())}));
            }
            let plumbing_failed = f.is_some();
            if let Some(f) = f {
                report(ctx, "plumbing", f);
            }
            if hi % 3 == 0 && git_ok && repo.is_some() && !plumbing_failed {
                ctx.eval();
                ctx.count("histories_through_gix_editor");
                let mut gstats = Stats::default();
                if let Some(f) = run_guarded("gix", repo.as_ref(), &env, h, &mut gstats) {
                    report(ctx, "gix", f);
                }
                ctx.count_n("gix_writes_compared", gstats.writes_compared + gstats.cursor_writes_compared);
            }
        }
        // the model's expected trees against git (children first, ids named by --missing)
        if git_ok && !expected_order.is_empty() {
            let trees: Vec<(ObjectId, &[u8])> = expected_order.iter().take(3000).map(|id| (*id, expected[id].as_slice())).collect();
            match git_mktree(&repo_dir, &trees) {
                Ok(ids) => {
                    ctx.count_n("expected_trees_confirmed_by_git_mktree", ids.len() as u64);
                    for (i, gid) in ids.iter().enumerate() {
                        if *gid != trees[i].0.to_string() {
                            ctx.inconclusive("model tree writer disagrees with git mktree on an expected tree");
                        }
                    }
                }
                Err(e) => ctx.inconclusive(&format!("git mktree (expected trees) failed: {}", e.chars().take(200).collect::<String>())),
            }
        }
        drop_loose(&repo_dir);
    });
    let _ = hex(&[]);
}
