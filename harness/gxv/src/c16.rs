//! C16 Reference transactions implement compare-and-swap atomically.
//!
//! One scenario = one history of gitoxide ref transactions (interleaved with git update-ref /
//! symbolic-ref / pack-refs) on one repository. After every step three views must coincide:
//!  * M  a name -> value map updated by the documented contract (PreviousValue table, deref = "the
//!       change applies to the referent", one edit per name, splits up to 5 rounds),
//!  * gitoxide's own reading (try_find of every name, iter().all()),
//!  * git's reading (a long-lived `git cat-file --batch-check` resolving every name after every step;
//!    `git for-each-ref` + `git symbolic-ref --no-recurse HEAD` at the end of every history, in the thorough
//!    tier also every eighth step).
//! Outcome of every transaction (must fail / must succeed) is compared with M; a failed prepare must
//! leave every file below the git directory byte-identical and no `*.lock` behind.
use crate::fw::{self, guard, Ctx, Rng};
use gix_hash::ObjectId;
use gix_lock::acquire::Fail;
use gix_ref::file::transaction::PackedRefs;
use gix_ref::transaction::{Change, LogChange, PreviousValue, RefEdit, RefLog};
use gix_ref::{FullName, Target};
use serde_json::{json, Value};
use std::collections::{BTreeMap, BTreeSet};
use std::io::{BufRead, BufReader, Write};
use std::path::{Path, PathBuf};

pub fn child(_mode: &str) {}

// ------------------------------------------------------------------ model

#[derive(Clone, Debug, PartialEq, Eq, PartialOrd, Ord, Hash)]
pub enum MVal {
    Obj(usize),
    Sym(String),
}
pub type Model = BTreeMap<String, MVal>;

pub const NAMES: &[&str] = &[
    "HEAD",
    "refs/heads/main",
    "refs/heads/a",
    "refs/heads/b",
    "refs/heads/a/b",
    "refs/tags/t",
    "refs/remotes/o/HEAD",
    "refs/remotes/o/a",
    "refs/x",
];
/// only ever used as the target of a symbolic ref (dangling until created through deref)
pub const DANGLING: &str = "refs/heads/none";

#[derive(Clone, Debug, PartialEq, Eq, Hash)]
pub enum Exp {
    Any,
    MustExist,
    MustNotExist,
    MustExistAndMatch(MVal),
    ExistingMustMatch(MVal),
}
#[derive(Clone, Debug, PartialEq, Eq, Hash)]
pub enum Op {
    Update(MVal),
    Delete,
}
#[derive(Clone, Debug)]
pub struct MEdit {
    pub name: String,
    pub op: Op,
    pub exp: Exp,
    pub deref: bool,
    pub log_only: bool,
}

pub fn df_conflict(a: &str, b: &str) -> bool {
    (a.len() > b.len() && a.starts_with(b) && a.as_bytes()[b.len()] == b'/') || (b.len() > a.len() && b.starts_with(a) && b.as_bytes()[a.len()] == b'/')
}

/// git's resolution: at most five refs are read along a chain (SYMREF_MAXDEPTH), i.e. four symbolic levels
pub fn resolve(model: &Model, start: &str) -> Option<(String, usize)> {
    let mut cur = start.to_string();
    for _ in 0..5 {
        match model.get(&cur)? {
            MVal::Obj(o) => return Some((cur, *o)),
            MVal::Sym(t) => cur = t.clone(),
        }
    }
    None
}

#[derive(Clone, Debug)]
pub struct Work {
    pub name: String,
    pub op: Op,
    pub exp: Exp,
    pub log_only: bool,
    /// index of the user edit this one stems from
    pub origin: usize,
    /// created by dereferencing a symbolic ref
    pub split: bool,
}

pub enum Pred {
    /// scenario outside the domain (directory/file conflict): do not run
    Skip(&'static str),
    MustFail { why: String, origin: Option<usize>, work: Vec<Work> },
    Ok { next: Model, work: Vec<Work>, uncertain: bool },
}

pub fn check_exp(exp: &Exp, op: &Op, cur: Option<&MVal>) -> Result<(), String> {
    match (op, exp, cur) {
        (_, Exp::Any, _) => Ok(()),
        (_, Exp::MustExist, Some(_)) => Ok(()),
        (_, Exp::MustExist, None) => Err("MustExist but absent".into()),
        (Op::Update(_), Exp::MustNotExist, None) => Ok(()),
        (Op::Update(new), Exp::MustNotExist, Some(c)) => {
            if c == new {
                Ok(())
            } else {
                Err("MustNotExist but present with another value".into())
            }
        }
        (Op::Delete, Exp::MustNotExist, _) => Err("invalid".into()),
        (_, Exp::MustExistAndMatch(_), None) => Err("MustExistAndMatch but absent".into()),
        (_, Exp::MustExistAndMatch(v), Some(c)) | (_, Exp::ExistingMustMatch(v), Some(c)) => {
            if v == c {
                Ok(())
            } else {
                Err("expected value differs from current value".into())
            }
        }
        (_, Exp::ExistingMustMatch(_), None) => Ok(()),
    }
}

/// The documented contract, on the name -> value map.
pub fn predict(model: &Model, edits: &[MEdit]) -> Pred {
    let mut w: Vec<(Work, bool)> = edits
        .iter()
        .enumerate()
        .map(|(i, e)| (Work { name: e.name.clone(), op: e.op.clone(), exp: e.exp.clone(), log_only: e.log_only, origin: i, split: false }, e.deref))
        .collect();
    let mut first = 0;
    let mut round = 1;
    let mut uncertain = false;
    loop {
        let mut new = Vec::new();
        for item in w[first..].iter_mut() {
            if !item.1 {
                continue;
            }
            item.1 = false;
            if let Some(MVal::Sym(referent)) = model.get(&item.0.name) {
                new.push((Work { name: referent.clone(), op: item.0.op.clone(), exp: item.0.exp.clone(), log_only: item.0.log_only, origin: item.0.origin, split: true }, true));
                // the change, including its expectation, applies to the referent; the symbolic ref only gets a reflog entry
                item.0.log_only = true;
                item.0.exp = Exp::Any;
            }
        }
        if new.is_empty() {
            break;
        }
        if round >= 4 {
            uncertain = true; // close to the documented five-round limit
        }
        if round == 5 {
            let work = w.iter().map(|x| x.0.clone()).collect();
            return Pred::MustFail { why: "more than five levels of symbolic refs (or a cycle)".into(), origin: None, work };
        }
        round += 1;
        first = w.len();
        w.append(&mut new);
    }
    let work: Vec<Work> = w.into_iter().map(|x| x.0).collect();
    // directory/file conflicts are outside the domain
    // (also for deletions of absent names: git refuses `update-ref -d refs/heads/a` while refs/heads/a/b exists, and vice versa)
    for (i, a) in work.iter().enumerate() {
        for k in model.keys() {
            if df_conflict(k, &a.name) {
                return Pred::Skip("directory/file conflict with an existing ref");
            }
        }
        for (j, b) in work.iter().enumerate() {
            if i != j && df_conflict(&a.name, &b.name) {
                return Pred::Skip("directory/file conflict inside the transaction");
            }
        }
    }
    let mut seen = BTreeSet::new();
    for a in &work {
        if !seen.insert(a.name.clone()) {
            return Pred::MustFail { why: format!("two edits for {}", a.name), origin: None, work: work.clone() };
        }
    }
    for a in &work {
        if let Err(why) = check_exp(&a.exp, &a.op, model.get(&a.name)) {
            return Pred::MustFail { why: format!("{}: {}", a.name, why), origin: Some(a.origin), work: work.clone() };
        }
    }
    let mut next = model.clone();
    for a in &work {
        if a.log_only {
            continue;
        }
        match &a.op {
            Op::Update(v) => {
                next.insert(a.name.clone(), v.clone());
            }
            Op::Delete => {
                next.remove(&a.name);
            }
        }
    }
    Pred::Ok { next, work, uncertain }
}

// ------------------------------------------------------------------ environment shared with C17

pub fn make_base(base: &Path) -> Result<Vec<String>, String> {
    fw::git::init(base, true)?;
    let who = "C O Mitter <c@example.com> 1700000000 +0000";
    let mut s = String::new();
    s.push_str("blob\nmark :1\ndata 2\nx\n\n");
    for i in 0..4 {
        s.push_str(&format!("commit refs/keep/c{i}\nmark :{}\ncommitter {who}\ndata 3\nc{i}\nM 100644 :1 f{i}\n\n", 10 + i));
    }
    s.push_str(&format!("tag t1\nmark :20\nfrom :10\ntagger {who}\ndata 3\nt1\n\n"));
    fw::git::ok_in(base, &["fast-import", "--quiet"], s.as_bytes())?;
    let out = fw::git::ok(base, &["rev-parse", "refs/keep/c0", "refs/keep/c1", "refs/keep/c2", "refs/keep/c3", "refs/tags/t1"])?;
    let ids: Vec<String> = out.lines().map(|l| l.trim().to_string()).collect();
    if ids.len() != 5 {
        return Err(format!("unexpected rev-parse output {out:?}"));
    }
    Ok(ids)
}

pub fn copy_dir(from: &Path, to: &Path) -> std::io::Result<()> {
    std::fs::create_dir_all(to)?;
    for e in std::fs::read_dir(from)? {
        let e = e?;
        let p = to.join(e.file_name());
        if e.file_type()?.is_dir() {
            copy_dir(&e.path(), &p)?;
        } else {
            std::fs::copy(e.path(), &p)?;
        }
    }
    Ok(())
}

pub fn reset_refs(repo: &Path) -> std::io::Result<()> {
    let _ = std::fs::remove_dir_all(repo.join("refs"));
    let _ = std::fs::remove_dir_all(repo.join("logs"));
    let _ = std::fs::remove_file(repo.join("packed-refs"));
    let _ = std::fs::remove_file(repo.join("packed-refs.lock"));
    let _ = std::fs::remove_file(repo.join("HEAD.lock"));
    std::fs::create_dir_all(repo.join("refs/heads"))?;
    std::fs::create_dir_all(repo.join("refs/tags"))?;
    std::fs::write(repo.join("HEAD"), "ref: refs/heads/main\n")
}

pub fn store_at(repo: &Path, reflog: bool) -> gix_ref::file::Store {
    gix_ref::file::Store::at(
        repo.to_owned(),
        gix_ref::store::init::Options {
            write_reflog: if reflog { gix_ref::store::WriteReflog::Normal } else { gix_ref::store::WriteReflog::Disable },
            object_hash: gix_hash::Kind::Sha1,
            precompose_unicode: false,
            prohibit_windows_device_names: false,
        },
    )
}

pub fn to_target(v: &MVal, objs: &[ObjectId]) -> Target {
    match v {
        MVal::Obj(i) => Target::Object(objs[*i]),
        MVal::Sym(n) => Target::Symbolic(FullName::try_from(n.as_str()).expect("valid name")),
    }
}

pub fn to_ref_edit(e: &MEdit, objs: &[ObjectId]) -> RefEdit {
    let pv = |x: &Exp| match x {
        Exp::Any => PreviousValue::Any,
        Exp::MustExist => PreviousValue::MustExist,
        Exp::MustNotExist => PreviousValue::MustNotExist,
        Exp::MustExistAndMatch(v) => PreviousValue::MustExistAndMatch(to_target(v, objs)),
        Exp::ExistingMustMatch(v) => PreviousValue::ExistingMustMatch(to_target(v, objs)),
    };
    let mode = if e.log_only { RefLog::Only } else { RefLog::AndReference };
    RefEdit {
        change: match &e.op {
            Op::Update(new) => Change::Update {
                log: LogChange { mode, force_create_reflog: false, message: "gxv".into() },
                expected: pv(&e.exp),
                new: to_target(new, objs),
            },
            Op::Delete => Change::Delete { expected: pv(&e.exp), log: mode },
        },
        name: FullName::try_from(e.name.as_str()).expect("valid name"),
        deref: e.deref,
    }
}

pub fn packed_mode<'a>(mode: u8, odb: &gix_odb::Handle) -> PackedRefs<'a> {
    match mode {
        0 => PackedRefs::DeletionsOnly,
        1 => PackedRefs::DeletionsAndNonSymbolicUpdates(Box::new(odb.clone())),
        _ => PackedRefs::DeletionsAndNonSymbolicUpdatesRemoveLooseSourceReference(Box::new(odb.clone())),
    }
}
pub const MODE_NAMES: [&str; 3] = ["deletions-only", "updates-to-packed", "updates-to-packed-remove-loose"];

/// every file below the git directory that belongs to the ref store, plus all lock files
pub fn snapshot(repo: &Path) -> BTreeMap<String, Vec<u8>> {
    fn walk(dir: &Path, base: &Path, out: &mut BTreeMap<String, Vec<u8>>) {
        let Ok(rd) = std::fs::read_dir(dir) else { return };
        for e in rd.flatten() {
            let p = e.path();
            if p.is_dir() {
                walk(&p, base, out);
            } else {
                out.insert(p.strip_prefix(base).unwrap().display().to_string(), std::fs::read(&p).unwrap_or_default());
            }
        }
    }
    let mut out = BTreeMap::new();
    walk(&repo.join("refs"), repo, &mut out);
    walk(&repo.join("logs"), repo, &mut out);
    if let Ok(rd) = std::fs::read_dir(repo) {
        for e in rd.flatten() {
            let n = e.file_name().to_string_lossy().to_string();
            if n == "HEAD" || n == "packed-refs" || n.ends_with(".lock") {
                out.insert(n, std::fs::read(e.path()).unwrap_or_default());
            }
        }
    }
    out
}

pub fn lock_files(snap: &BTreeMap<String, Vec<u8>>) -> Vec<String> {
    snap.keys().filter(|k| k.ends_with(".lock")).cloned().collect()
}

// ------------------------------------------------------------------ git observers

struct CatFile {
    child: std::process::Child,
    stdin: std::process::ChildStdin,
    stdout: BufReader<std::process::ChildStdout>,
}
impl CatFile {
    fn new(repo: &Path) -> std::io::Result<CatFile> {
        let mut child = fw::git::cmd()
            .current_dir(repo)
            .args(["cat-file", "--batch-check=%(objectname)"])
            .stdin(std::process::Stdio::piped())
            .stdout(std::process::Stdio::piped())
            .stderr(std::process::Stdio::null())
            .spawn()?;
        let stdin = child.stdin.take().unwrap();
        let stdout = BufReader::new(child.stdout.take().unwrap());
        Ok(CatFile { child, stdin, stdout })
    }
    /// Ok(Some(oid)) / Ok(None) = git cannot resolve the name
    fn resolve(&mut self, name: &str) -> std::io::Result<Option<String>> {
        self.stdin.write_all(name.as_bytes())?;
        self.stdin.write_all(b"\n")?;
        self.stdin.flush()?;
        let mut line = String::new();
        if self.stdout.read_line(&mut line)? == 0 {
            return Err(std::io::Error::new(std::io::ErrorKind::UnexpectedEof, "git cat-file went away"));
        }
        let l = line.trim_end();
        Ok(if l.ends_with(" missing") || l.ends_with(" ambiguous") { None } else { Some(l.to_string()) })
    }
}
impl Drop for CatFile {
    fn drop(&mut self) {
        let _ = self.child.kill();
        let _ = self.child.wait();
    }
}

// ------------------------------------------------------------------ generation

fn all_names() -> Vec<&'static str> {
    let mut v = NAMES.to_vec();
    v.push(DANGLING);
    v
}

fn name_class(n: &str) -> &'static str {
    if n == "HEAD" {
        "HEAD"
    } else if n.starts_with("refs/heads/") {
        "branch"
    } else if n.starts_with("refs/tags/") {
        "tag"
    } else if n.starts_with("refs/remotes/") {
        "remote"
    } else {
        "other"
    }
}

fn gen_value(r: &mut Rng, n_objs: usize, for_name: &str) -> MVal {
    if r.chance(1, 4) {
        let mut cands: Vec<&str> = NAMES.iter().copied().filter(|n| *n != "HEAD" && *n != for_name).collect();
        cands.push(DANGLING);
        MVal::Sym(r.pick(&cands).to_string())
    } else {
        MVal::Obj(r.usize(n_objs))
    }
}

fn gen_edit(r: &mut Rng, model: &Model, n_objs: usize) -> MEdit {
    let name = if r.chance(1, 4) { "HEAD" } else { *r.pick(NAMES) }.to_string();
    let deref = r.bool();
    let is_delete = r.chance(3, 10);
    // the value the expectation will be compared with under the contract
    let leaf = if deref { resolve_leaf_name(model, &name) } else { name.clone() };
    let cur = model.get(&leaf).cloned();
    let op = if is_delete { Op::Delete } else { Op::Update(gen_value(r, n_objs, &name)) };
    let wrong = |r: &mut Rng, cur: &Option<MVal>| -> MVal {
        loop {
            let v = if r.chance(1, 5) { MVal::Sym(r.pick(NAMES).to_string()) } else { MVal::Obj(r.usize(n_objs)) };
            if Some(&v) != cur.as_ref() {
                return v;
            }
        }
    };
    let right_or_wrong = |r: &mut Rng| -> MVal {
        match (&cur, r.chance(3, 5)) {
            (Some(c), true) => c.clone(),
            _ => wrong(r, &cur),
        }
    };
    let exp = match r.below(if is_delete { 4 } else { 5 }) {
        0 => Exp::Any,
        1 => Exp::MustExist,
        2 => Exp::MustExistAndMatch(right_or_wrong(r)),
        3 => Exp::ExistingMustMatch(right_or_wrong(r)),
        _ => Exp::MustNotExist,
    };
    // reflog-only edits only on existing direct refs: an orphan reflog (log without ref) is C21's business and
    // turns later edits of neighbouring names into directory/file conflicts below logs/
    let log_only = !deref && matches!(model.get(&name), Some(MVal::Obj(_))) && r.chance(1, 12);
    MEdit { name, op, exp: if log_only { Exp::Any } else { exp }, deref, log_only }
}

fn resolve_leaf_name(model: &Model, start: &str) -> String {
    let mut cur = start.to_string();
    for _ in 0..6 {
        match model.get(&cur) {
            Some(MVal::Sym(t)) => cur = t.clone(),
            _ => break,
        }
    }
    cur
}

fn exp_class(e: &Exp, cur: Option<&MVal>) -> &'static str {
    match e {
        Exp::Any => "any",
        Exp::MustExist => "must-exist",
        Exp::MustNotExist => "must-not-exist",
        Exp::MustExistAndMatch(v) => {
            if Some(v) == cur {
                "must-exist-and-match:right"
            } else {
                "must-exist-and-match:wrong"
            }
        }
        Exp::ExistingMustMatch(v) => {
            if Some(v) == cur {
                "existing-must-match:right"
            } else {
                "existing-must-match:wrong"
            }
        }
    }
}

fn op_class(op: &Op) -> &'static str {
    match op {
        Op::Update(MVal::Obj(_)) => "update-object",
        Op::Update(MVal::Sym(_)) => "update-symbolic",
        Op::Delete => "delete",
    }
}

fn placement(repo: &Path, name: &str) -> (bool, bool) {
    let loose = repo.join(name).is_file();
    let packed = std::fs::read(repo.join("packed-refs"))
        .map(|b| b.split(|c| *c == b'\n').any(|l| l.len() > 41 && &l[41..] == name.as_bytes()))
        .unwrap_or(false);
    (loose, packed)
}

fn show_val(v: Option<&MVal>, ids: &[String]) -> String {
    match v {
        None => "absent".into(),
        Some(MVal::Obj(i)) => ids[*i][..8].to_string(),
        Some(MVal::Sym(t)) => format!("ref: {t}"),
    }
}

fn show_edit(e: &MEdit, ids: &[String]) -> Value {
    let ex = match &e.exp {
        Exp::Any => "Any".to_string(),
        Exp::MustExist => "MustExist".into(),
        Exp::MustNotExist => "MustNotExist".into(),
        Exp::MustExistAndMatch(v) => format!("MustExistAndMatch({})", show_val(Some(v), ids)),
        Exp::ExistingMustMatch(v) => format!("ExistingMustMatch({})", show_val(Some(v), ids)),
    };
    json!({"name": e.name, "change": match &e.op { Op::Update(v) => format!("Update(new={})", show_val(Some(v), ids)), Op::Delete => "Delete".into() },
           "expected": ex, "deref": e.deref, "log": if e.log_only {"Only"} else {"AndReference"}})
}

fn show_model(m: &Model, ids: &[String]) -> Vec<String> {
    m.iter().map(|(k, v)| format!("{k} = {}", show_val(Some(v), ids))).collect()
}

// ------------------------------------------------------------------ one history

#[derive(Default)]
struct Obs {
    findings: Vec<(String, String, Value)>,
    counts: BTreeMap<String, u64>,
    distinct: Vec<u64>,
    evals: u64,
    inconclusive: Vec<String>,
    sample: Option<Value>,
}
impl Obs {
    fn count(&mut self, k: &str) {
        *self.counts.entry(k.into()).or_insert(0) += 1;
    }
}

enum Ran {
    PrepareErr { variant: &'static str, text: String, named: Option<String> },
    CommitErr(String),
    Committed,
}

fn prepare_error_ref(e: &gix_ref::file::transaction::prepare::Error) -> Option<String> {
    use gix_ref::file::transaction::prepare::Error as E;
    match e {
        E::LockAcquire { full_name, .. } | E::DeleteReferenceMustExist { full_name } | E::MustNotExist { full_name, .. } | E::MustExist { full_name, .. } | E::ReferenceOutOfDate { full_name, .. } => {
            Some(full_name.to_string())
        }
        _ => None,
    }
}

fn prepare_error_variant(e: &gix_ref::file::transaction::prepare::Error) -> &'static str {
    use gix_ref::file::transaction::prepare::Error as E;
    match e {
        E::Packed(_) => "Packed",
        E::PackedTransactionAcquire(_) => "PackedTransactionAcquire",
        E::PackedTransactionPrepare(_) => "PackedTransactionPrepare",
        E::PackedFind(_) => "PackedFind",
        E::PreprocessingFailed(_) => "PreprocessingFailed",
        E::LockAcquire { .. } => "LockAcquire",
        E::Io(_) => "Io",
        E::DeleteReferenceMustExist { .. } => "DeleteReferenceMustExist",
        E::MustNotExist { .. } => "MustNotExist",
        E::MustExist { .. } => "MustExist",
        E::ReferenceOutOfDate { .. } => "ReferenceOutOfDate",
        E::ReferenceDecode(_) => "ReferenceDecode",
    }
}

struct Worker {
    repo: PathBuf,
    ids: Vec<String>,
    objs: Vec<ObjectId>,
}

fn run_history(w: &Worker, r: &mut Rng, quick: bool) -> Obs {
    let mut obs = Obs::default();
    let repo = &w.repo;
    let ids = &w.ids;
    if let Err(e) = reset_refs(repo) {
        obs.inconclusive.push(format!("cannot reset scratch repository: {e}"));
        return obs;
    }
    let reflog = r.bool();
    let store = store_at(repo, reflog);
    let odb = match gix_odb::at(repo.join("objects")) {
        Ok(o) => o,
        Err(e) => {
            obs.inconclusive.push(format!("cannot open odb: {e}"));
            return obs;
        }
    };
    let mut cat = match CatFile::new(repo) {
        Ok(c) => c,
        Err(e) => {
            obs.inconclusive.push(format!("cannot spawn git cat-file: {e}"));
            return obs;
        }
    };
    obs.count("git_spawns");
    obs.count("histories");
    let mut model: Model = BTreeMap::new();
    model.insert("HEAD".into(), MVal::Sym("refs/heads/main".into()));
    let steps = 5 + r.usize(if quick { 16 } else { 36 });
    let sig = gix_actor::SignatureRef { name: "gxv".into(), email: "gxv@example.com".into(), time: gix_date::Time { seconds: 1_700_000_000, offset: 0, sign: gix_date::time::Sign::Plus } };
    let mut trail: Vec<Value> = Vec::new();
    let names = all_names();

    for step in 0..steps {
        let last = step + 1 == steps;
        let mut after_git_op = false;
        let mut step_desc;
        let mut sig_ctx = String::from("none");
        let mut last_mode = "no-transaction";
        if r.chance(1, if quick { 6 } else { 5 }) {
            // ---------------- a git command changes the store
            after_git_op = true;
            let kind = r.below(6);
            let name = r.pick(NAMES).to_string();
            let mut args: Vec<String> = Vec::new();
            let mut next = model.clone();
            match kind {
                0 | 1 => {
                    let o = r.usize(ids.len());
                    if model.keys().any(|k| df_conflict(k, &name)) {
                        continue;
                    }
                    args.extend(["update-ref".into(), "--no-deref".into(), name.clone(), ids[o].clone()]);
                    next.insert(name.clone(), MVal::Obj(o));
                }
                2 => {
                    if name == "HEAD" || !model.contains_key(&name) {
                        continue;
                    }
                    args.extend(["update-ref".into(), "--no-deref".into(), "-d".into(), name.clone()]);
                    next.remove(&name);
                }
                3 => {
                    let mut cands: Vec<&str> = NAMES.iter().copied().filter(|n| *n != "HEAD" && *n != name).collect();
                    cands.push(DANGLING);
                    let t = r.pick(&cands).to_string();
                    if model.keys().any(|k| df_conflict(k, &name)) {
                        continue;
                    }
                    args.extend(["symbolic-ref".into(), name.clone(), t.clone()]);
                    next.insert(name.clone(), MVal::Sym(t));
                }
                4 => args.extend(["pack-refs".into(), "--all".into()]),
                _ => args.extend(["pack-refs".into(), "--all".into(), "--no-prune".into()]),
            }
            step_desc = json!({"git": args});
            obs.count("git_spawns");
            obs.count(&format!("git_ops_{}", args[0]));
            match fw::git::run(repo, &args) {
                Ok(o) if o.ok => model = next,
                Ok(o) => {
                    obs.count("git_ops_refused");
                    step_desc["refused"] = json!(o.err_text());
                }
                Err(e) => {
                    obs.inconclusive.push(format!("git spawn failed: {e}"));
                    return obs;
                }
            }
        } else {
            // ---------------- a gitoxide transaction
            let n_edits = if r.bool() { 1 } else { 1 + r.usize(4) };
            let mut edits: Vec<MEdit> = Vec::new();
            for _ in 0..n_edits {
                let e = gen_edit(r, &model, ids.len());
                if edits.iter().any(|x| x.name == e.name) && !r.chance(1, 10) {
                    continue; // duplicate names mostly avoided, sometimes kept (must fail)
                }
                edits.push(e);
            }
            // never remove HEAD itself: git stops recognising the repository
            edits.retain(|e| !(e.name == "HEAD" && e.op == Op::Delete && !e.log_only && !(e.deref && matches!(model.get("HEAD"), Some(MVal::Sym(_))))));
            // a symbolic HEAD must point below refs/ (all names do); nothing to filter
            if edits.is_empty() {
                continue;
            }
            let mode = r.below(3) as u8;
            let pred = predict(&model, &edits);
            if let Pred::Skip(why) = pred {
                obs.count(&format!("skipped_{}", why.replace([' ', '/'], "-")));
                continue;
            }
            let before = snapshot(repo);
            let placements: Vec<(bool, bool)> = edits.iter().map(|e| placement(repo, &resolve_leaf_name(&model, &e.name))).collect();
            let ref_edits: Vec<RefEdit> = edits.iter().map(|e| to_ref_edit(e, &w.objs)).collect();
            let ran = guard(|| {
                let t = store.transaction().packed_refs(packed_mode(mode, &odb));
                match t.prepare(ref_edits.clone(), Fail::Immediately, Fail::Immediately) {
                    Err(e) => Ran::PrepareErr { variant: prepare_error_variant(&e), text: e.to_string(), named: prepare_error_ref(&e) },
                    Ok(t) => match t.commit(Some(sig)) {
                        Ok(_) => Ran::Committed,
                        Err(e) => Ran::CommitErr(e.to_string()),
                    },
                }
            });
            obs.evals += 1;
            obs.count("transactions");
            obs.count(&format!("transactions_mode_{}", MODE_NAMES[mode as usize]));
            step_desc = json!({"transaction": edits.iter().map(|e| show_edit(e, ids)).collect::<Vec<_>>(), "packed_refs": MODE_NAMES[mode as usize],
                               "state_before": show_model(&model, ids)});
            // shape bookkeeping
            for (e, pl) in edits.iter().zip(&placements) {
                let leaf = if e.deref { resolve_leaf_name(&model, &e.name) } else { e.name.clone() };
                let through = e.deref && matches!(model.get(&e.name), Some(MVal::Sym(_)));
                let cur = model.get(&leaf);
                let prior = match cur {
                    None => "none",
                    Some(MVal::Sym(_)) => "symbolic",
                    Some(_) => match pl {
                        (true, true) => "both",
                        (true, false) => "loose",
                        (false, true) => "packed",
                        _ => "none?",
                    },
                };
                obs.distinct.push(fw::hash_of(&(op_class(&e.op), exp_class(&e.exp, cur), through, e.deref, mode, prior, name_class(&e.name), edits.len().min(2), e.log_only)));
                obs.count(&format!("edits_{}", op_class(&e.op)));
                obs.count(&format!("edits_expect_{}", exp_class(&e.exp, cur)));
                obs.count(&format!("edits_prior_{prior}"));
                if through {
                    obs.count("edits_deref_through_symref");
                }
            }
            // class of the transaction for signatures: a single edit describes itself, otherwise the edit the prediction blames
            let class_of = |i: usize| -> String {
                let e = &edits[i];
                let through = e.deref && matches!(model.get(&e.name), Some(MVal::Sym(_)));
                format!("{}|{}", op_class(&e.op), if through { "deref-through-symref" } else if e.deref { "deref-noop" } else { "no-deref" })
            };
            let mode_name = MODE_NAMES[mode as usize];
            last_mode = mode_name;
            let work_of_pred: Vec<Work> = match &pred {
                Pred::MustFail { work, .. } | Pred::Ok { work, .. } => work.clone(),
                Pred::Skip(_) => Vec::new(),
            };
            let blamed = match &pred {
                Pred::MustFail { origin: Some(i), .. } => Some(*i),
                _ if edits.len() == 1 => Some(0),
                _ => None,
            };
            sig_ctx = blamed.map(&class_of).unwrap_or_else(|| "multi-edit".into());
            let mut wv = json!({"step": step_desc.clone(), "history": trail.clone(), "reflog": reflog});
            match ran {
                Err(p) => {
                    if p.in_repo {
                        obs.findings.push((format!("panic|transaction|{}|{sig_ctx}", p.site), format!("transaction panicked at {}: {}", p.site, p.message), wv));
                    } else {
                        obs.inconclusive.push(format!("harness panic at {}: {}", p.site, p.message));
                    }
                    return obs;
                }
                Ok(Ran::PrepareErr { variant, text, named }) => {
                    // blame the user edit whose chain contains the ref the error names
                    let by_error = named.as_ref().and_then(|n| work_of_pred.iter().find(|wk| &wk.name == n)).map(|wk| class_of(wk.origin));
                    let fail_ctx = by_error.unwrap_or_else(|| sig_ctx.clone());
                    obs.count("transactions_prepare_failed");
                    obs.count(&format!("prepare_error_{variant}"));
                    step_desc["outcome"] = json!(format!("prepare failed: {text}"));
                    wv["gitoxide_error"] = json!(text);
                    let after = snapshot(repo);
                    if after != before {
                        let changed: Vec<String> = after.keys().chain(before.keys()).filter(|k| after.get(*k) != before.get(*k)).cloned().collect::<BTreeSet<_>>().into_iter().collect();
                        let k = if !lock_files(&after).is_empty() { "lock-left-behind" } else { "files-changed" };
                        wv["changed_files"] = json!(changed);
                        obs.findings.push((format!("txn|failed-prepare|{k}|{variant}|{fail_ctx}"), "a failed prepare() changed the ref store on disk".into(), wv.clone()));
                    }
                    match &pred {
                        Pred::Ok { uncertain: false, .. } => {
                            obs.findings.push((
                                format!("txn|unexpected-failure|{variant}|{fail_ctx}"),
                                format!("prepare() fails with {variant} although the contract says the transaction applies"),
                                wv,
                            ));
                        }
                        _ => {}
                    }
                    if !repo.join("refs").is_dir() {
                        obs.findings.push((
                            "txn|failed-prepare|refs-directory-removed".into(),
                            "after a failed prepare() the (empty) refs/ directory is gone: git no longer recognises the repository".into(),
                            json!({"step": step_desc.clone(), "history": trail.clone(), "gitoxide_error": step_desc["outcome"].clone()}),
                        ));
                        let _ = std::fs::create_dir_all(repo.join("refs/heads"));
                        let _ = std::fs::create_dir_all(repo.join("refs/tags"));
                    }
                    // state must be unchanged: model stays
                }
                Ok(Ran::CommitErr(text)) => {
                    wv["gitoxide_error"] = json!(text);
                    // directory/file conflicts are never provoked, so a directory at the path of an edited ref is an empty leftover
                    let leftover_dir = work_of_pred.iter().any(|wk| repo.join(&wk.name).is_dir());
                    let class = if leftover_dir { "ref-path-is-an-empty-leftover-directory".to_string() } else { sig_ctx.clone() };
                    obs.findings.push((format!("txn|commit-error|{class}"), format!("commit() failed without any injected fault: {text}"), wv));
                    return obs;
                }
                Ok(Ran::Committed) => {
                    obs.count("transactions_committed");
                    step_desc["outcome"] = json!("committed");
                    match pred {
                        Pred::MustFail { why, .. } => {
                            wv["contract"] = json!(why);
                            obs.findings.push((format!("txn|unexpected-success|{sig_ctx}|{mode_name}"), format!("transaction commits although the contract demands failure: {why}"), wv));
                            return obs;
                        }
                        Pred::Ok { next, work, .. } => {
                            model = next;
                            // placement promises of the packed-refs modes
                            if mode != 0 {
                                for a in &work {
                                    if a.log_only || a.name == "HEAD" {
                                        continue;
                                    }
                                    if let Op::Update(MVal::Obj(_)) = a.op {
                                        let (loose, packed) = placement(repo, &a.name);
                                        // mode 1 writes the loose file only if the value changes; the packed entry is always written
                                        let bad = if mode == 2 { loose || !packed } else { !packed };
                                        if bad {
                                            let mut wv2 = wv.clone();
                                            wv2["ref"] = json!(a.name);
                                            wv2["loose_file_exists"] = json!(loose);
                                            wv2["in_packed_refs"] = json!(packed);
                                            obs.findings.push((format!("txn|placement|{}|{}", MODE_NAMES[mode as usize], name_class(&a.name)), "an updated ref is not stored where the PackedRefs mode promises".into(), wv2));
                                        }
                                    }
                                }
                            }
                        }
                        Pred::Skip(_) => unreachable!(),
                    }
                    if !repo.join("refs").is_dir() {
                        obs.findings.push((
                            "txn|committed|refs-directory-removed".into(),
                            "after commit() the (now empty) refs/ directory is gone: git no longer recognises the repository".into(),
                            json!({"step": step_desc.clone(), "history": trail.clone()}),
                        ));
                        let _ = std::fs::create_dir_all(repo.join("refs/heads"));
                        let _ = std::fs::create_dir_all(repo.join("refs/tags"));
                    }
                    let after = snapshot(repo);
                    let locks = lock_files(&after);
                    if !locks.is_empty() {
                        wv["locks"] = json!(locks);
                        obs.findings.push((format!("txn|lock-left-behind-after-commit|{sig_ctx}"), "lock files remain after commit()".into(), wv));
                    }
                }
            }
        }
        trail.push(step_desc.clone());
        if trail.len() > 60 {
            trail.remove(0);
        }

        // ---------------- observers
        let wv = json!({"history": trail.clone(), "model": show_model(&model, ids), "reflog": reflog});
        // git, value level, every step
        let mut git_mismatch: Option<String> = None;
        // a name below (or above) an existing ref cannot exist; looking it up is C18's business (ENOTDIR)
        let observable: Vec<&str> = names.iter().copied().filter(|n| !model.keys().any(|k| df_conflict(k, n))).collect();
        for n in &observable {
            let want = resolve(&model, n).map(|(_, o)| ids[o].clone());
            let mut answer = cat.resolve(n);
            if answer.is_err() && repo.join("HEAD").exists() && repo.join("refs").is_dir() {
                // the long-lived git died (e.g. it started while refs/ was missing): one fresh process, once
                if let Ok(c) = CatFile::new(repo) {
                    cat = c;
                    obs.count("git_spawns");
                    obs.count("git_cat_file_restarts");
                    answer = cat.resolve(n);
                }
            }
            match answer {
                Ok(got) => {
                    if got != want {
                        git_mismatch = Some(format!("{n}: git resolves to {got:?}, model says {want:?}"));
                        break;
                    }
                }
                Err(e) => {
                    if repo.join("HEAD").exists() {
                        obs.inconclusive.push(format!("git cat-file is unavailable: {e}"));
                        return obs;
                    }
                    // git cat-file died because the repository is no longer recognised (HEAD gone)
                    git_mismatch = Some(format!("{n}: git cannot read the repository any more ({e})"));
                    break;
                }
            }
        }
        obs.evals += 1;
        if let Some(m) = git_mismatch {
            if after_git_op {
                obs.count("model_differs_from_git");
                obs.inconclusive.push(format!("model of a git command is off: {m}"));
            } else {
                let head_gone = !repo.join("HEAD").exists();
                let k = if head_gone { "HEAD-file-removed".to_string() } else { format!("value|{sig_ctx}") };
                let mut wv = wv.clone();
                wv["detail"] = json!(m);
                obs.findings.push((format!("txn|state-seen-by-git|{k}|{last_mode}"), format!("after the transaction git reads a state that differs from the model: {m}"), wv));
            }
            return obs;
        }
        // gitoxide, exact targets, every step
        let mut gix_mismatch: Option<String> = None;
        for n in &observable {
            let want = model.get(*n).map(|v| to_target(v, &w.objs));
            match guard(|| store.try_find(*n)) {
                Err(p) => {
                    gix_mismatch = Some(format!("try_find({n}) panicked at {}", p.site));
                    break;
                }
                Ok(Err(e)) => {
                    gix_mismatch = Some(format!("try_find({n}) failed: {e}"));
                    break;
                }
                Ok(Ok(got)) => {
                    let got = got.map(|r| r.target);
                    if got != want {
                        gix_mismatch = Some(format!("{n}: gitoxide reads {got:?}, model and git say {want:?}"));
                        break;
                    }
                }
            }
        }
        if gix_mismatch.is_none() {
            let want: Vec<(String, Target)> = model.iter().filter(|(k, _)| k.starts_with("refs/")).map(|(k, v)| (k.clone(), to_target(v, &w.objs))).collect();
            match guard(|| -> Result<Vec<(String, Target)>, String> {
                let mut out = Vec::new();
                let platform = store.iter().map_err(|e| e.to_string())?;
                for r in platform.all().map_err(|e| e.to_string())? {
                    let r = r.map_err(|e| e.to_string())?;
                    out.push((r.name.as_bstr().to_string(), r.target));
                }
                Ok(out)
            }) {
                Err(p) => gix_mismatch = Some(format!("iter().all() panicked at {}", p.site)),
                Ok(Err(e)) => gix_mismatch = Some(format!("iter().all() failed: {e}")),
                Ok(Ok(mut got)) => {
                    got.sort(); // order is C18's business
                    got.dedup();
                    if got != want {
                        gix_mismatch = Some(format!("iter().all() = {:?}, model = {:?}", got.iter().map(|x| &x.0).collect::<Vec<_>>(), want.iter().map(|x| &x.0).collect::<Vec<_>>()));
                    }
                }
            }
        }
        obs.evals += 1;
        if let Some(m) = gix_mismatch {
            let mut wv = wv.clone();
            wv["detail"] = json!(m);
            let k = if after_git_op { "after-git-command" } else { "after-transaction" };
            obs.findings.push((format!("txn|state-seen-by-gitoxide|{k}|{sig_ctx}|{last_mode}"), format!("gitoxide reads a state that differs from git and the model: {m}"), wv));
            return obs;
        }
        // git, full listing, every sixth step and at the end
        if last || (!quick && step % 8 == 7) {
            obs.count("git_spawns");
            obs.count("git_spawns");
            obs.count("full_git_listings");
            let fer = fw::git::run(repo, &["for-each-ref", "--format=%(refname) %(objectname) <%(symref)>"]);
            let head = fw::git::run(repo, &["symbolic-ref", "--no-recurse", "-q", "HEAD"]);
            let (Ok(fer), Ok(head)) = (fer, head) else {
                obs.inconclusive.push("git spawn failed".into());
                return obs;
            };
            let mut want_lines: Vec<String> = Vec::new();
            for (k, v) in &model {
                if !k.starts_with("refs/") {
                    continue;
                }
                if let Some((leaf, o)) = resolve(&model, k) {
                    let sym = if matches!(v, MVal::Sym(_)) { leaf } else { String::new() };
                    want_lines.push(format!("{k} {} <{sym}>", ids[o]));
                }
            }
            let got_lines: Vec<String> = fer.text().lines().map(|l| l.to_string()).filter(|l| !l.is_empty()).collect();
            let want_head = match model.get("HEAD") {
                Some(MVal::Sym(t)) => t.clone(),
                _ => String::new(),
            };
            let got_head = head.text();
            if got_lines != want_lines || got_head != want_head {
                let mut wv = wv.clone();
                wv["git_for_each_ref"] = json!(got_lines);
                wv["expected"] = json!(want_lines);
                wv["git_symbolic_ref_HEAD"] = json!(got_head);
                if after_git_op {
                    obs.inconclusive.push(format!("model and git for-each-ref disagree after a git command: {:?} HEAD={:?} vs {:?} HEAD={:?}", got_lines, got_head, want_lines, want_head));
                } else {
                    obs.findings.push((format!("txn|listing-seen-by-git|{sig_ctx}|{last_mode}"), "git for-each-ref / symbolic-ref HEAD differ from the model".into(), wv));
                }
                return obs;
            }
        }
    }
    if obs.sample.is_none() {
        obs.sample = Some(json!({"history_tail": trail.iter().rev().take(3).collect::<Vec<_>>(), "final_state": show_model(&model, ids)}));
    }
    obs
}

const THREADS: usize = 4;

pub fn run(ctx: &mut Ctx) {
    ctx.rule("scenario = history of 5..40 steps over 9 names (HEAD, nested branch names, tag, remote HEAD, refs/x); step = gitoxide transaction of 1..4 edits (update to object/symbolic, delete; all five expectations with right and wrong values; deref on/off; the three PackedRefs modes with a real object database; reflog on/off) or a git command (update-ref --no-deref, update-ref -d, symbolic-ref, pack-refs --all [--no-prune]); distinct = (change kind, expectation class, deref through symref?, PackedRefs mode, prior placement none/loose/packed/both/symbolic, name class, single/multi edit)");
    ctx.assume("directory/file conflicts (refs/heads/a vs refs/heads/a/b) are never provoked; HEAD itself is never deleted; Delete with MustNotExist is documented as invalid and not generated; no IO faults are injected (commit is documented as non-atomic then)");
    ctx.assume("deref means: the change and its expectation apply to the referent (as in git update-ref); chains of four or more symbolic levels are not judged on outcome");
    let base = ctx.dir("base");
    let ids = match make_base(&base) {
        Ok(o) => o,
        Err(e) => {
            ctx.inconclusive(&format!("base repository could not be built: {e}"));
            return;
        }
    };
    let objs: Vec<ObjectId> = ids.iter().map(|h| ObjectId::from_hex(h.as_bytes()).expect("hex")).collect();
    // refs of the base repo are not wanted
    let mut workers = Vec::new();
    for i in 0..THREADS {
        let d = ctx.dir(&format!("w{i}"));
        if let Err(e) = copy_dir(&base, &d) {
            ctx.inconclusive(&format!("copy failed: {e}"));
            return;
        }
        workers.push(Worker { repo: d, ids: ids.clone(), objs: objs.clone() });
    }
    let groups = ctx.n(3, 500);
    let quick = ctx.quick();
    ctx.cases("histories", groups, |ctx, r| {
        let rngs: Vec<Rng> = (0..THREADS).map(|_| r.fork()).collect();
        let results: Vec<Result<Obs, fw::PanicInfo>> = std::thread::scope(|s| {
            let hs: Vec<_> = workers
                .iter()
                .zip(rngs)
                .map(|(w, mut rr)| {
                    s.spawn(move || {
                        let mut all = Vec::new();
                        for _ in 0..2 {
                            all.push(guard(|| run_history(w, &mut rr, quick)));
                        }
                        all
                    })
                })
                .collect();
            hs.into_iter().flat_map(|h| h.join().expect("worker")).collect()
        });
        for res in results {
            match res {
                Err(p) => ctx.panic_violation("history-worker", &p, "history", json!({})),
                Ok(obs) => {
                    ctx.add_evals(obs.evals);
                    for (k, v) in &obs.counts {
                        ctx.count_n(k, *v);
                    }
                    for d in &obs.distinct {
                        ctx.distinct(d);
                    }
                    for i in &obs.inconclusive {
                        ctx.inconclusive(i);
                    }
                    for (sig, what, w) in obs.findings {
                        ctx.violation(&sig, &what, w);
                    }
                    if let Some(s) = obs.sample {
                        if ctx.want_sample() {
                            ctx.sample(s);
                        }
                    }
                }
            }
        }
    });
}
