//! C09 Pack and multi-pack index lookups agree with a linear scan.
//! Oracle: sorted vector + linear scan (reference model). Writers: (a) gitoxide's real V2 index
//! encoder fed synthetic (id, offset, crc) entries through the `verif-hooks` wrapper (offsets beyond
//! 2^31 without a 2 GiB pack), (b) git `index-pack --index-version=2,0x10` on real packs (forces
//! the 64 bit offset table), (c) gitoxide's multi-index writer over (a)-files and git's
//! `multi-pack-index write` over real packs.
use crate::fw::{self, git, guard, hex, repogen, Ctx, Rng};
use gix_hash::{ObjectId, Prefix};
use serde_json::json;
use std::collections::BTreeMap;
use std::ops::Range;
use std::path::{Path, PathBuf};
use std::sync::atomic::AtomicBool;

pub fn child(_mode: &str) {}

#[derive(Clone, Debug)]
struct E {
    id: ObjectId,
    offset: u64,
    crc: u32,
}

fn gen_ids(r: &mut Rng) -> (Vec<ObjectId>, &'static str, &'static str) {
    let size_class = r.below(8);
    let n = match size_class {
        0 => 0,
        1 => 1,
        2 => 2,
        3 => 3 + r.usize(10),
        4 | 5 => 20 + r.usize(200),
        _ => 300 + r.usize(2700),
    };
    let size_name = ["empty", "one", "two", "few", "mid", "mid", "large", "large"][size_class as usize];
    let shape = r.below(5);
    let shape_name = ["uniform", "one-bucket", "buckets-00-ff", "long-shared-prefix", "adjacent-buckets"][shape as usize];
    let bucket = r.next_u64() as u8;
    let shared: Vec<u8> = r.bytes(18);
    let mut set = std::collections::BTreeSet::new();
    let mut guard_iter = 0;
    while set.len() < n && guard_iter < n * 20 + 100 {
        guard_iter += 1;
        let mut b = [0u8; 20];
        for x in b.iter_mut() {
            *x = r.next_u64() as u8;
        }
        match shape {
            1 => b[0] = bucket,
            2 => b[0] = if r.bool() { 0 } else { 0xff },
            3 => {
                // share 1..18 leading bytes, so that prefixes of every length are ambiguous somewhere
                let k = 1 + r.usize(18);
                b[..k].copy_from_slice(&shared[..k]);
            }
            4 => b[0] = bucket.wrapping_add(r.below(3) as u8),
            _ => {}
        }
        set.insert(b);
    }
    (set.into_iter().map(ObjectId::from).collect(), size_name, shape_name)
}

fn gen_entries(r: &mut Rng) -> (Vec<E>, String) {
    let (ids, size_name, shape_name) = gen_ids(r);
    let large_pct = *r.pick(&[0u64, 0, 25, 60, 100]);
    let mut used = std::collections::HashSet::new();
    let mut n_large = 0;
    let entries: Vec<E> = ids
        .into_iter()
        .map(|id| {
            let offset = loop {
                let o = if r.chance(large_pct, 100) {
                    match r.below(4) {
                        0 => 0x7fff_ffff + r.below(4),          // around the threshold
                        1 => 0x8000_0000 + r.below(1 << 20),
                        2 => 0xffff_fffe + r.below(4),          // around 2^32
                        _ => 12 + r.below((1u64 << 40) - 12),
                    }
                } else {
                    12 + r.below(0x7fff_ffff - 12)
                };
                if used.insert(o) {
                    break o;
                }
            };
            if offset > 0x7fff_ffff {
                n_large += 1;
            }
            E { id, offset, crc: r.next_u64() as u32 }
        })
        .collect();
    let large_class = if n_large == 0 { "no-large" } else if n_large == entries.len() { "all-large" } else { "some-large" };
    (entries, format!("{size_name}|{shape_name}|{large_class}"))
}

fn model_prefix(sorted: &[ObjectId], p: &Prefix) -> (Option<Result<u32, ()>>, Range<u32>) {
    let matches: Vec<u32> = sorted.iter().enumerate().filter(|(_, id)| p.cmp_oid(id) == std::cmp::Ordering::Equal).map(|(i, _)| i as u32).collect();
    match matches.len() {
        0 => (None, 0..0),
        1 => (Some(Ok(matches[0])), matches[0]..matches[0] + 1),
        _ => (Some(Err(())), matches[0]..matches[matches.len() - 1] + 1),
    }
}

/// model ids via independent hex string comparison (not via Prefix::cmp_oid, which is C05's subject)
fn model_prefix_hex(sorted_hex: &[String], phex: &str) -> (Option<Result<u32, ()>>, Range<u32>) {
    let matches: Vec<u32> = sorted_hex.iter().enumerate().filter(|(_, h)| h.starts_with(phex)).map(|(i, _)| i as u32).collect();
    match matches.len() {
        0 => (None, 0..0),
        1 => (Some(Ok(matches[0])), matches[0]..matches[0] + 1),
        _ => (Some(Err(())), matches[0]..matches[matches.len() - 1] + 1),
    }
}

struct Lookups<'a> {
    num: u32,
    lookup: &'a dyn Fn(&ObjectId) -> Option<u32>,
    prefix: &'a dyn Fn(Prefix, Option<&mut Range<u32>>) -> Option<Result<u32, ()>>,
    oid_at: &'a dyn Fn(u32) -> ObjectId,
}

fn neighbours(id: &ObjectId, r: &mut Rng) -> Vec<ObjectId> {
    let mut out = Vec::new();
    let mut b = [0u8; 20];
    b.copy_from_slice(id.as_bytes());
    let mut x = b;
    x[19] = x[19].wrapping_add(1);
    out.push(ObjectId::from(x));
    let mut y = b;
    y[19] = y[19].wrapping_sub(1);
    out.push(ObjectId::from(y));
    let mut z = b;
    let k = r.usize(20);
    z[k] ^= 1 << r.below(8);
    out.push(ObjectId::from(z));
    out
}

/// shared query workload; returns number of evaluations
fn check_lookups(ctx: &mut Ctx, r: &mut Rng, what: &str, shape: &str, sorted: &[ObjectId], l: &Lookups<'_>, witness: &serde_json::Value) -> u64 {
    let mut evals = 0u64;
    let sorted_hex: Vec<String> = sorted.iter().map(|i| hex(i.as_bytes())).collect();
    if l.num as usize != sorted.len() {
        ctx.violation(&format!("{what}|num-objects"), &format!("index reports {} objects, {} were written", l.num, sorted.len()), witness.clone());
        return 1;
    }
    let budget = 400usize;
    let step = (sorted.len() / budget).max(1);
    let mut idxs: Vec<usize> = (0..sorted.len()).step_by(step).collect();
    if !sorted.is_empty() {
        idxs.push(sorted.len() - 1);
        idxs.push(0);
    }
    for &i in &idxs {
        let id = sorted[i];
        evals += 1;
        match guard(|| (l.lookup)(&id)) {
            Err(p) => {
                ctx.panic_violation(&format!("{what}::lookup"), &p, shape, witness.clone());
                return evals;
            }
            Ok(got) => {
                if got != Some(i as u32) {
                    ctx.violation(&format!("{what}|lookup|present-id"), &format!("lookup({id}) = {got:?}, linear scan says {i}"), witness.clone());
                }
            }
        }
        if (l.oid_at)(i as u32) != id {
            ctx.violation(&format!("{what}|oid_at_index"), &format!("oid_at_index({i}) != sorted[{i}]"), witness.clone());
        }
        // absent neighbours
        for nb in neighbours(&id, r) {
            evals += 1;
            let want = sorted.binary_search(&nb).ok().map(|x| x as u32);
            match guard(|| (l.lookup)(&nb)) {
                Err(p) => {
                    ctx.panic_violation(&format!("{what}::lookup"), &p, shape, witness.clone());
                    return evals;
                }
                Ok(got) => {
                    if got != want {
                        ctx.violation(&format!("{what}|lookup|neighbour-id"), &format!("lookup({nb}) = {got:?}, linear scan says {want:?}"), witness.clone());
                    }
                }
            }
        }
    }
    // prefixes of every length of some present ids and absent ids
    let mut probe_ids: Vec<ObjectId> = Vec::new();
    for _ in 0..6.min(sorted.len()) {
        probe_ids.push(sorted[r.usize(sorted.len())]);
    }
    if let Some(f) = sorted.first() {
        probe_ids.push(*f);
        probe_ids.extend(neighbours(f, r));
    }
    if let Some(f) = sorted.last() {
        probe_ids.push(*f);
        probe_ids.extend(neighbours(f, r));
    }
    let mut rb = [0u8; 20];
    for x in rb.iter_mut() {
        *x = r.next_u64() as u8;
    }
    probe_ids.push(ObjectId::from(rb));
    probe_ids.push(ObjectId::from([0u8; 20]));
    probe_ids.push(ObjectId::from([0xffu8; 20]));
    for pid in probe_ids {
        let ph = hex(pid.as_bytes());
        for n in 4..=40usize {
            let Ok(p) = Prefix::new(&pid, n) else { continue };
            evals += 1;
            let (want, want_range) = model_prefix_hex(&sorted_hex, &ph[..n]);
            let mut range = 0..0u32;
            let got = match guard(|| (l.prefix)(p, Some(&mut range))) {
                Err(pi) => {
                    ctx.panic_violation(&format!("{what}::lookup_prefix"), &pi, shape, witness.clone());
                    return evals;
                }
                Ok(g) => g,
            };
            let got_plain = (l.prefix)(p, None);
            let class = match want {
                None => "none",
                Some(Ok(_)) => "unique",
                Some(Err(())) => "ambiguous",
            };
            ctx.distinct((what.to_string(), shape.to_string(), class, n / 8));
            if got != want {
                ctx.violation(&format!("{what}|lookup_prefix|{class}"), &format!("lookup_prefix({}) = {:?}, linear scan says {:?}", &ph[..n], got, want), witness.clone());
            } else if got_plain != want {
                ctx.violation(&format!("{what}|lookup_prefix|without-candidates-differs"), &format!("lookup_prefix({}) without candidates = {:?}, with = {:?}", &ph[..n], got_plain, got), witness.clone());
            } else if range != want_range && !(want.is_none() && range.is_empty()) {
                ctx.violation(&format!("{what}|lookup_prefix|candidate-range|{class}"), &format!("candidates for {} = {:?}, linear scan says {:?}", &ph[..n], range, want_range), witness.clone());
            }
            // keep the model honest: Prefix-based and hex-based models agree
            debug_assert_eq!(model_prefix(sorted, &p).0, want);
        }
    }
    evals
}

fn write_synthetic_idx(path: &Path, entries: &[E], r: &mut Rng) -> std::io::Result<()> {
    let mut sorted: Vec<(ObjectId, u64, u32)> = entries.iter().map(|e| (e.id, e.offset, e.crc)).collect();
    sorted.sort_by(|a, b| a.0.cmp(&b.0));
    let mut ph = [0u8; 20];
    for x in ph.iter_mut() {
        *x = r.next_u64() as u8;
    }
    let mut f = std::fs::File::create(path)?;
    gix_pack::verif::write_index_v2(&mut f, sorted, &ObjectId::from(ph))?;
    Ok(())
}

fn check_index_file(ctx: &mut Ctx, r: &mut Rng, what: &str, shape: &str, path: &Path, entries: &[E]) {
    let mut sorted_e: Vec<E> = entries.to_vec();
    sorted_e.sort_by(|a, b| a.id.cmp(&b.id));
    let sorted: Vec<ObjectId> = sorted_e.iter().map(|e| e.id).collect();
    let witness = json!({"writer": what, "shape": shape, "objects": sorted.len(), "first_ids": sorted.iter().take(4).map(|i| i.to_string()).collect::<Vec<_>>(), "index_file_sha1": std::fs::read(path).map(|b| fw::sha1_hex(&b)).unwrap_or_default()});
    let idx = match guard(|| gix_pack::index::File::at(path, gix_hash::Kind::Sha1)) {
        Err(p) => {
            ctx.panic_violation(&format!("{what}::File::at"), &p, shape, witness);
            return;
        }
        Ok(Err(e)) => {
            ctx.violation(&format!("{what}|open-fails"), &format!("index::File::at failed on a well-formed index: {e}"), witness);
            return;
        }
        Ok(Ok(i)) => i,
    };
    let lookups = Lookups {
        num: idx.num_objects(),
        lookup: &|id| idx.lookup(id),
        prefix: &|p, c| idx.lookup_prefix(p, c),
        oid_at: &|i| idx.oid_at_index(i).to_owned(),
    };
    let n = check_lookups(ctx, r, what, shape, &sorted, &lookups, &witness);
    ctx.add_evals(n);
    // offsets and crc32 for every entry
    for (i, e) in sorted_e.iter().enumerate() {
        let off = idx.pack_offset_at_index(i as u32);
        if off != e.offset {
            let class = if e.offset > 0x7fff_ffff { "large" } else { "small" };
            ctx.violation(&format!("{what}|pack_offset_at_index|{class}"), &format!("offset of entry {i} is {off:#x}, recorded {:#x}", e.offset), witness.clone());
            break;
        }
        if idx.crc32_at_index(i as u32) != Some(e.crc) {
            ctx.violation(&format!("{what}|crc32_at_index"), &format!("crc32 of entry {i} is {:?}, recorded {:#x}", idx.crc32_at_index(i as u32), e.crc), witness.clone());
            break;
        }
    }
    ctx.add_evals(sorted_e.len() as u64);
    let via_iter: Vec<(ObjectId, u64, Option<u32>)> = idx.iter().map(|e| (e.oid, e.pack_offset, e.crc32)).collect();
    let want_iter: Vec<(ObjectId, u64, Option<u32>)> = sorted_e.iter().map(|e| (e.id, e.offset, Some(e.crc))).collect();
    if via_iter != want_iter {
        ctx.violation(&format!("{what}|iter"), "iter() differs from the written entries in id order", witness.clone());
    }
    let mut offs: Vec<u64> = entries.iter().map(|e| e.offset).collect();
    offs.sort_unstable();
    if idx.sorted_offsets() != offs {
        ctx.violation(&format!("{what}|sorted_offsets"), "sorted_offsets() differs from the written offsets", witness);
    }
}

fn check_multi(ctx: &mut Ctx, r: &mut Rng, what: &str, shape: &str, midx_path: &Path, per_index: &BTreeMap<String, Vec<E>>) {
    // union with candidate locations
    let mut loc: BTreeMap<ObjectId, Vec<(String, u64)>> = BTreeMap::new();
    for (name, es) in per_index {
        for e in es {
            loc.entry(e.id).or_default().push((name.clone(), e.offset));
        }
    }
    let sorted: Vec<ObjectId> = loc.keys().copied().collect();
    let witness = json!({"writer": what, "shape": shape, "indices": per_index.keys().collect::<Vec<_>>(), "objects": sorted.len()});
    let m = match guard(|| gix_pack::multi_index::File::at(midx_path)) {
        Err(p) => {
            ctx.panic_violation(&format!("{what}::File::at"), &p, shape, witness);
            return;
        }
        Ok(Err(e)) => {
            // the class keeps the empty id set (a multi-pack index without any object) apart from every other refusal
            let class = if sorted.is_empty() { "no-objects" } else { "with-objects" };
            ctx.violation(&format!("{what}|open-fails|multi-index|{class}"), &format!("multi_index::File::at failed: {e}"), witness);
            return;
        }
        Ok(Ok(m)) => m,
    };
    let lookups = Lookups {
        num: m.num_objects(),
        lookup: &|id| m.lookup(id),
        prefix: &|p, c| m.lookup_prefix(p, c),
        oid_at: &|i| m.oid_at_index(i).to_owned(),
    };
    let n = check_lookups(ctx, r, what, shape, &sorted, &lookups, &witness);
    ctx.add_evals(n);
    if m.num_objects() as usize != sorted.len() {
        return;
    }
    let names: Vec<String> = m.index_names().iter().map(|p| p.display().to_string()).collect();
    for (i, id) in sorted.iter().enumerate() {
        let (pid, off) = m.pack_id_and_pack_offset_at_index(i as u32);
        let name = names.get(pid as usize).cloned().unwrap_or_default();
        let cands = &loc[id];
        ctx.eval();
        if !cands.iter().any(|(n, o)| *n == name && *o == off) {
            let class = if cands.iter().any(|(_, o)| *o > 0x7fff_ffff) { "large" } else { "small" };
            ctx.violation(
                &format!("{what}|pack_id_and_pack_offset_at_index|{class}"),
                &format!("entry {i} ({id}) is reported in '{name}' at {off:#x}; it was written as {:?}", cands),
                witness.clone(),
            );
            break;
        }
    }
}

pub fn run(ctx: &mut Ctx) {
    ctx.rule("case = one id set (size/fan-out shape/large-offset class) written by one writer, queried with present ids, neighbours, and prefixes of every length 4..40; distinct = (writer, set shape, prefix outcome class none|unique|ambiguous, length bucket)");
    // (a) synthetic entries through gitoxide's encoder, and gitoxide's multi-index writer over such files
    let n = ctx.n(60, 3000);
    ctx.cases("synthetic", n, |ctx, r| {
        let dir = ctx.dir("syn");
        let (entries, shape) = gen_entries(r);
        let path = dir.join("pack-a.idx");
        match guard(|| write_synthetic_idx(&path, &entries, r)) {
            Err(p) => {
                ctx.panic_violation("index-encoder", &p, &shape, json!({"shape": shape, "objects": entries.len()}));
                return;
            }
            Ok(Err(e)) => {
                ctx.violation("gix-encoder|write-fails", &format!("index encoder failed: {e}"), json!({"shape": shape}));
                return;
            }
            Ok(Ok(())) => {}
        }
        ctx.count("indices_written_by_gitoxide_encoder");
        ctx.count_n("entries_with_offset_beyond_2g", entries.iter().filter(|e| e.offset > 0x7fff_ffff).count() as u64);
        check_index_file(ctx, r, "gix-encoder", &shape, &path, &entries);
        if ctx.want_sample() {
            ctx.sample(json!({"writer": "gix-encoder", "shape": shape, "objects": entries.len(), "example": entries.first().map(|e| json!({"id": e.id.to_string(), "offset": e.offset, "crc": e.crc}))}));
        }
        // multi-index over 1..5 synthetic indices with overlapping ids
        if r.chance(1, 2) {
            let k = 1 + r.usize(5);
            let mut per_index: BTreeMap<String, Vec<E>> = BTreeMap::new();
            let mut paths: Vec<PathBuf> = Vec::new();
            let mut pool: Vec<E> = entries.clone();
            for j in 0..k {
                let (mut es, _) = gen_entries(r);
                es.truncate(400);
                // share some ids with earlier indices (same id, other offset)
                for _ in 0..r.usize(6) {
                    if pool.is_empty() {
                        break;
                    }
                    let mut e = pool[r.usize(pool.len())].clone();
                    e.offset = 12 + r.below(1 << 33);
                    if !es.iter().any(|x| x.id == e.id || x.offset == e.offset) {
                        es.push(e);
                    }
                }
                let name = format!("pack-{:02}.idx", j);
                let p = dir.join(&name);
                if write_synthetic_idx(&p, &es, r).is_err() {
                    return;
                }
                pool.extend(es.iter().cloned());
                per_index.insert(name, es);
                paths.push(p);
            }
            let midx = dir.join("multi-pack-index");
            let res = guard(|| {
                let mut f = std::fs::File::create(&midx)?;
                gix_pack::multi_index::File::write_from_index_paths(
                    paths.clone(),
                    &mut f,
                    &mut gix_features::progress::Discard,
                    &AtomicBool::new(false),
                    gix_pack::multi_index::write::Options { object_hash: gix_hash::Kind::Sha1 },
                )
                .map_err(|e| std::io::Error::new(std::io::ErrorKind::Other, e.to_string()))
            });
            match res {
                Err(p) => ctx.panic_violation("multi_index::write_from_index_paths", &p, &shape, json!({"indices": k})),
                Ok(Err(e)) => ctx.violation("gix-midx-writer|write-fails", &format!("write_from_index_paths failed: {e}"), json!({"indices": k})),
                Ok(Ok(_)) => {
                    ctx.count("multi_indices_written_by_gitoxide");
                    let total: usize = per_index.values().map(Vec::len).sum();
                    let mshape = format!("{k}-indices|{}", if total == 0 { "empty" } else if total < 50 { "few" } else { "many" });
                    check_multi(ctx, r, "gix-midx-writer", &mshape, &midx, &per_index);
                }
            }
        }
    });
    // (b) real packs indexed by git with forced 64 bit offsets; git's multi-pack-index
    let n = ctx.n(3, 60);
    ctx.cases("git-written", n, |ctx, r| {
        let dir = ctx.dir("repo");
        let mut spec = repogen::DagSpec::small(r);
        spec.commits = 6 + r.usize(40);
        spec.delta_fodder = r.bool();
        let repo = match repogen::build_dag(&dir, r, &spec) {
            Ok(x) => x,
            Err(e) => {
                ctx.inconclusive(&format!("repo-gen: {e}"));
                return;
            }
        };
        // several packs: repack incrementally by making refs visible in steps
        let _ = git::run(&dir, &["repack", "-d", "-q"]);
        let extra = format!("blob\nmark :1\ndata 5\nextra\ncommit refs/keep/x\nauthor A <a@e> 1600000000 +0000\ncommitter A <a@e> 1600000000 +0000\ndata 1\nm\nM 100644 :1 extra{}\n\n", r.below(1000));
        let _ = git::run_in(&dir, &["fast-import", "--quiet", "--force"], extra.as_bytes());
        if r.bool() {
            let _ = git::run(&dir, &["repack", "-d", "-q"]);
        }
        let _ = repo;
        let packdir = dir.join("objects").join("pack");
        let mut per_index: BTreeMap<String, Vec<E>> = BTreeMap::new();
        let packs: Vec<PathBuf> = std::fs::read_dir(&packdir).map(|d| d.flatten().map(|e| e.path()).filter(|p| p.extension().map_or(false, |x| x == "pack")).collect()).unwrap_or_default();
        for pack in &packs {
            let threshold = *r.pick(&["0x10", "0x100", "0x0"]);
            let out_idx = dir.join(format!("{}-forced.idx", pack.file_stem().unwrap().to_string_lossy()));
            let o = git::run(&dir, &["index-pack", &format!("--index-version=2,{threshold}"), "-o", &out_idx.display().to_string(), &pack.display().to_string()]);
            if !matches!(o, Ok(ref o) if o.ok) {
                ctx.inconclusive("git index-pack --index-version failed");
                return;
            }
            // ground truth from git: show-index lists (offset, id, crc)
            let bytes = std::fs::read(&out_idx).unwrap_or_default();
            let Ok(si) = git::run_in(&dir, &["show-index"], &bytes) else {
                ctx.inconclusive("git show-index failed");
                return;
            };
            let mut es = Vec::new();
            for line in si.text().lines() {
                // "<offset> <id> (<crc>)"
                let mut it = line.split_whitespace();
                let (Some(off), Some(id), Some(crc)) = (it.next(), it.next(), it.next()) else { continue };
                let (Ok(off), Ok(id), Ok(crc)) = (off.parse::<u64>(), ObjectId::from_hex(id.as_bytes()), u32::from_str_radix(crc.trim_matches(|c| c == '(' || c == ')'), 16)) else { continue };
                es.push(E { id, offset: off, crc });
            }
            ctx.count("indices_written_by_git_with_forced_64bit_table");
            let shape = format!("real-pack|threshold={threshold}|{}", if es.len() < 50 { "few" } else { "many" });
            check_index_file(ctx, r, "git-index-pack", &shape, &out_idx, &es);
            // the regular index next to the pack
            per_index.insert(format!("{}.idx", pack.file_stem().unwrap().to_string_lossy()), es);
        }
        if packs.len() >= 1 && git::run(&dir, &["multi-pack-index", "write"]).map(|o| o.ok).unwrap_or(false) {
            let midx = packdir.join("multi-pack-index");
            if midx.is_file() {
                ctx.count("multi_indices_written_by_git");
                let shape = format!("git-midx|{}-packs", packs.len());
                check_multi(ctx, r, "git-midx", &shape, &midx, &per_index);
                if ctx.want_sample() {
                    ctx.sample(json!({"writer": "git multi-pack-index write", "packs": packs.len(), "objects": per_index.values().map(Vec::len).sum::<usize>()}));
                }
            }
        }
    });
}
