//! C20 Reference updates are crash-consistent.
//! Fault enumeration by syscall-level kill injection: a worker child prepares a ref transaction,
//! issues marker syscall A, commits, issues marker B. A traced dry run gives the list of
//! filesystem-mutating syscalls between A and B; then for EVERY such syscall index k a fresh copy
//! of the same repository is used and the worker is killed (SIGKILL injected by strace) right
//! before its k-th mutating syscall. Each crash state is examined by git and by gitoxide:
//! every ref reads as old or new value, packed-refs is the complete old or new file, leftovers
//! are only *.lock files (and empty directories), reflogs lag or lead by at most the new entries.
use crate::fw::{self, git, repogen, Ctx, Rng};
use serde_json::{json, Value};
use std::collections::{BTreeMap, BTreeSet};
use std::path::{Path, PathBuf};
use std::process::Command;

const SET: &str = "open,openat,creat,write,pwrite64,writev,rename,renameat,renameat2,unlink,unlinkat,mkdir,mkdirat,rmdir,link,linkat,symlink,symlinkat,ftruncate,truncate,fsync,fdatasync,chmod,fchmod,fchmodat";

// ------------------------------------------------------------------ worker (child)
fn marker(name: &str) {
    let c = std::ffi::CString::new(name).unwrap();
    unsafe {
        libc::access(c.as_ptr(), libc::F_OK);
    }
}

fn target_from(v: &Value) -> gix_ref::Target {
    if let Some(s) = v["sym"].as_str() {
        gix_ref::Target::Symbolic(gix_ref::FullName::try_from(s).expect("valid name"))
    } else {
        gix_ref::Target::Object(gix_hash::ObjectId::from_hex(v["oid"].as_str().unwrap().as_bytes()).unwrap())
    }
}

fn expected_from(v: &Value) -> gix_ref::transaction::PreviousValue {
    use gix_ref::transaction::PreviousValue as P;
    match v["kind"].as_str().unwrap_or("any") {
        "must-exist" => P::MustExist,
        "must-not-exist" => P::MustNotExist,
        "must-exist-and-match" => P::MustExistAndMatch(target_from(&v["value"])),
        "existing-must-match" => P::ExistingMustMatch(target_from(&v["value"])),
        _ => P::Any,
    }
}

pub fn child(spec_path: &str) {
    use gix_ref::transaction::{Change, LogChange, RefEdit, RefLog};
    let spec: Value = serde_json::from_slice(&std::fs::read(spec_path).expect("spec")).expect("json");
    let git_dir = PathBuf::from(spec["git_dir"].as_str().unwrap());
    let store = gix_ref::file::Store::at(
        git_dir.clone(),
        gix_ref::store::init::Options {
            write_reflog: match spec["reflog"].as_str() {
                Some("always") => gix_ref::store::WriteReflog::Always,
                Some("disable") => gix_ref::store::WriteReflog::Disable,
                _ => gix_ref::store::WriteReflog::Normal,
            },
            object_hash: gix_hash::Kind::Sha1,
            precompose_unicode: false,
            prohibit_windows_device_names: false,
        },
    );
    let edits: Vec<RefEdit> = spec["edits"]
        .as_array()
        .unwrap()
        .iter()
        .map(|e| RefEdit {
            name: gix_ref::FullName::try_from(e["name"].as_str().unwrap()).expect("valid"),
            deref: e["deref"].as_bool().unwrap_or(false),
            change: if e["delete"].as_bool().unwrap_or(false) {
                Change::Delete { expected: expected_from(&e["expected"]), log: RefLog::AndReference }
            } else {
                Change::Update {
                    log: LogChange { mode: RefLog::AndReference, force_create_reflog: e["force_log"].as_bool().unwrap_or(false), message: "gxv: update".into() },
                    expected: expected_from(&e["expected"]),
                    new: target_from(&e["new"]),
                }
            },
        })
        .collect();
    let odb = gix_odb::at(git_dir.join("objects")).expect("odb");
    let packed = match spec["packed"].as_str() {
        Some("updates") => gix_ref::file::transaction::PackedRefs::DeletionsAndNonSymbolicUpdates(Box::new(odb)),
        Some("updates-remove-loose") => gix_ref::file::transaction::PackedRefs::DeletionsAndNonSymbolicUpdatesRemoveLooseSourceReference(Box::new(odb)),
        _ => gix_ref::file::transaction::PackedRefs::DeletionsOnly,
    };
    let tx = store.transaction().packed_refs(packed);
    let tx = match tx.prepare(edits, gix_lock::acquire::Fail::Immediately, gix_lock::acquire::Fail::Immediately) {
        Ok(t) => t,
        Err(e) => {
            println!("PREPARE-ERR {e}");
            return;
        }
    };
    let committer = gix_actor::Signature {
        name: "C O Mitter".into(),
        email: "committer@example.com".into(),
        time: gix_date::Time { seconds: 1_700_000_000, offset: 0, sign: gix_date::time::Sign::Plus },
    };
    marker("/gxv-marker-A");
    let res = tx.commit(committer.to_ref());
    marker("/gxv-marker-B");
    match res {
        Ok(_) => println!("COMMITTED"),
        Err(e) => println!("COMMIT-ERR {e}"),
    }
}

// ------------------------------------------------------------------ parent
fn copy_tree(from: &Path, to: &Path) -> std::io::Result<()> {
    std::fs::create_dir_all(to)?;
    for e in std::fs::read_dir(from)? {
        let e = e?;
        let ft = e.file_type()?;
        let dst = to.join(e.file_name());
        if ft.is_dir() {
            copy_tree(&e.path(), &dst)?;
        } else if ft.is_file() {
            // objects are immutable: hard-link them instead of copying
            if from.components().any(|c| c.as_os_str() == "objects") {
                if std::fs::hard_link(e.path(), &dst).is_err() {
                    std::fs::copy(e.path(), &dst)?;
                }
            } else {
                std::fs::copy(e.path(), &dst)?;
            }
        }
    }
    Ok(())
}

/// all files (not under objects/) -> content, and all directories
fn snapshot(dir: &Path) -> (BTreeMap<String, Vec<u8>>, BTreeSet<String>) {
    fn walk(base: &Path, p: &Path, files: &mut BTreeMap<String, Vec<u8>>, dirs: &mut BTreeSet<String>) {
        if let Ok(rd) = std::fs::read_dir(p) {
            for e in rd.flatten() {
                let path = e.path();
                let rel = path.strip_prefix(base).unwrap().to_string_lossy().to_string();
                if rel == "objects" || rel == "hooks" || rel == "info" || rel == "description" || rel == "config" || rel == "branches" {
                    continue;
                }
                if path.is_dir() {
                    dirs.insert(rel);
                    walk(base, &path, files, dirs);
                } else {
                    files.insert(rel, std::fs::read(&path).unwrap_or_default());
                }
            }
        }
    }
    let mut f = BTreeMap::new();
    let mut d = BTreeSet::new();
    walk(dir, dir, &mut f, &mut d);
    (f, d)
}

/// how git reads every ref (and HEAD): name -> "sym:<target>" | "oid:<hex>" ; absent names are missing.
/// Three spawns per state: for-each-ref (all refs, with symref targets), symbolic-ref HEAD, rev-parse HEAD.
fn git_view(dir: &Path, names: &BTreeSet<String>) -> Result<BTreeMap<String, String>, String> {
    let mut out = BTreeMap::new();
    let fe = git::run(dir, &["for-each-ref", "--format=%(refname) %(objectname) %(symref)"]).map_err(|e| e.to_string())?;
    if !fe.ok {
        return Err(format!("for-each-ref failed: {}", fe.err_text()));
    }
    for line in fe.text().lines() {
        let mut it = line.splitn(3, ' ');
        let (Some(n), Some(oid)) = (it.next(), it.next()) else { continue };
        let sym = it.next().unwrap_or("");
        if !names.contains(n) {
            // a ref that neither the old nor the new state knows
            out.insert(n.to_string(), format!("unexpected:{oid}"));
            continue;
        }
        if sym.is_empty() {
            out.insert(n.to_string(), format!("oid:{oid}"));
        } else {
            out.insert(n.to_string(), format!("sym:{sym}"));
        }
    }
    // for-each-ref leaves out symbolic refs whose target does not exist; `git symbolic-ref <name>` would print the
    // target read from the loose file, which is done here directly to keep the number of processes per crash point low
    for n in names {
        if n != "HEAD" && !out.contains_key(n) {
            if let Ok(content) = std::fs::read_to_string(dir.join(n)) {
                if let Some(target) = content.strip_prefix("ref: ") {
                    out.insert(n.clone(), format!("sym:{}", target.trim_end()));
                }
            }
        }
    }
    // refs that for-each-ref refuses to list are reported on stderr ("ignoring broken ref", "ignoring dangling symref")
    for line in fe.err_text().lines() {
        for n in names {
            if line.contains(n.as_str()) && !out.contains_key(n) {
                out.insert(n.clone(), format!("broken:{}", line.chars().take(80).collect::<String>()));
            }
        }
    }
    if names.contains("HEAD") {
        let s = git::run(dir, &["symbolic-ref", "-q", "HEAD"]).map_err(|e| e.to_string())?;
        if s.ok {
            out.insert("HEAD".into(), format!("sym:{}", s.text()));
        } else {
            let v = git::run(dir, &["rev-parse", "--verify", "-q", "HEAD"]).map_err(|e| e.to_string())?;
            if v.ok {
                out.insert("HEAD".into(), format!("oid:{}", v.text()));
            }
        }
    }
    Ok(out)
}

fn gix_view(dir: &Path, names: &BTreeSet<String>) -> BTreeMap<String, String> {
    let store = gix_ref::file::Store::at(dir.to_path_buf(), Default::default());
    let mut out = BTreeMap::new();
    for n in names {
        let Ok(full) = gix_ref::FullName::try_from(n.as_str()) else { continue };
        match fw::guard(|| store.try_find(full.as_ref())) {
            Ok(Ok(Some(r))) => {
                out.insert(
                    n.clone(),
                    match r.target {
                        gix_ref::Target::Symbolic(t) => format!("sym:{}", t.as_bstr()),
                        gix_ref::Target::Object(o) => format!("oid:{o}"),
                    },
                );
            }
            Ok(Ok(None)) => {}
            Ok(Err(e)) => {
                out.insert(n.clone(), format!("broken:{}", e.to_string().chars().take(80).collect::<String>()));
            }
            Err(p) => {
                out.insert(n.clone(), format!("broken:panic at {}", p.site));
            }
        }
    }
    out
}

struct Trace {
    /// mutating syscalls before marker A
    base: usize,
    /// names (with first path argument) of mutating syscalls between A and B
    window: Vec<String>,
    /// for each window entry: (syscall name, its per-name ordinal since process start); strace's
    /// `when=` counter is kept per syscall, not per set
    ordinals: Vec<(String, usize)>,
}

fn parse_trace(log: &str) -> Option<Trace> {
    let mut base = 0;
    let mut window = Vec::new();
    let mut ordinals = Vec::new();
    let mut per_name: BTreeMap<String, usize> = BTreeMap::new();
    let mut phase = 0; // 0 before A, 1 in window, 2 after B
    for line in log.lines() {
        // "<pid> syscall(args...) = ret"  (with -f -o the pid prefix is present)
        let rest = line.split_once(' ').map(|x| x.1.trim_start()).unwrap_or(line);
        if rest.starts_with("+++") || rest.starts_with("---") {
            continue;
        }
        let name = rest.split('(').next().unwrap_or("");
        if name == "access" {
            if rest.contains("gxv-marker-A") {
                phase = 1;
            } else if rest.contains("gxv-marker-B") {
                phase = 2;
            }
            continue;
        }
        if name.is_empty() || !name.chars().all(|c| c.is_ascii_alphanumeric() || c == '_') {
            continue;
        }
        let ord = per_name.entry(name.to_string()).or_insert(0);
        *ord += 1;
        match phase {
            0 => base += 1,
            1 => {
                let arg: String = rest.chars().take(110).collect();
                window.push(arg);
                ordinals.push((name.to_string(), *ord));
            }
            _ => {}
        }
    }
    (phase == 2).then_some(Trace { base, window, ordinals })
}

fn count_set_syscalls(log: &str) -> (usize, String) {
    let mut n = 0;
    let mut last = String::new();
    for line in log.lines() {
        let rest = line.split_once(' ').map(|x| x.1.trim_start()).unwrap_or(line);
        if rest.starts_with("+++") || rest.starts_with("---") {
            continue;
        }
        let name = rest.split('(').next().unwrap_or("");
        if name == "access" || name.is_empty() || !name.chars().all(|c| c.is_ascii_alphanumeric() || c == '_') {
            continue;
        }
        n += 1;
        last = rest.chars().take(110).collect();
    }
    (n, last)
}

fn run_worker(exe: &Path, spec_path: &Path, log: &Path, inject_at: Option<&(String, usize)>) -> Result<(String, Option<i32>), String> {
    let mut c = Command::new("/usr/bin/strace");
    c.arg("-f").arg("-o").arg(log).arg("-e").arg(format!("trace={SET},access"));
    if let Some((name, n)) = inject_at {
        c.arg("-e").arg(format!("inject={name}:signal=SIGKILL:when={n}"));
    }
    c.arg("--").arg(exe).arg("--child").arg("C20").arg(spec_path);
    c.env("RUST_BACKTRACE", "0");
    let o = c.output().map_err(|e| format!("strace spawn: {e}"))?;
    Ok((String::from_utf8_lossy(&o.stdout).to_string(), o.status.code()))
}

fn strip_dir(s: &str, dir: &Path) -> String {
    s.replace(&dir.display().to_string(), "<D>")
}

struct Scenario {
    spec: Value,
    names: BTreeSet<String>,
    shape: String,
}

fn setup_template(ctx: &mut Ctx, r: &mut Rng, tmpl: &Path) -> Option<Scenario> {
    let mut spec_dag = repogen::DagSpec::small(r);
    spec_dag.commits = 5;
    spec_dag.merge_pct = 0;
    spec_dag.root_pct = 0;
    spec_dag.rich_trees = false;
    let repo = match repogen::build_dag(tmpl, r, &spec_dag) {
        Ok(x) => x,
        Err(e) => {
            ctx.inconclusive(&format!("repo-gen: {e}"));
            return None;
        }
    };
    let c: Vec<String> = repo.commits.iter().map(|c| c.id.clone()).collect();
    // drop the keep refs out of the way: keep only one so that objects stay reachable
    for i in 0..c.len() - 1 {
        let _ = git::run(tmpl, &["update-ref", "-d", &format!("refs/keep/{i}")]);
    }
    let pool = ["refs/heads/main", "refs/heads/a", "refs/heads/dir/b", "refs/tags/t", "refs/heads/dir/sub/c"];
    // directed shape (1 in 4): a reference whose packed copy is stale (packed A, loose B) is deleted - the only
    // shape in which the order "packed-refs first, loose file second" is observable after a crash
    let directed: Option<&str> = if r.chance(1, 4) { Some(*r.pick(&pool[1..])) } else { None };
    let mut present: BTreeMap<String, String> = BTreeMap::new();
    for n in pool {
        if r.chance(3, 4) || directed == Some(n) {
            let v = r.pick(&c[..4]).clone();
            if git::ok(tmpl, &["update-ref", n, &v]).is_ok() {
                present.insert(n.to_string(), v);
            }
        }
    }
    let _ = git::ok(tmpl, &["symbolic-ref", "HEAD", "refs/heads/main"]);
    let mut placement = String::new();
    if r.chance(2, 3) || directed.is_some() {
        let _ = git::ok(tmpl, &["pack-refs", "--all"]);
        placement.push_str("packed");
        // stale packed copies: move some loose refs afterwards
        for n in pool {
            if present.contains_key(n) && (r.chance(1, 3) || directed == Some(n)) {
                let mut v = r.pick(&c[..4]).clone();
                if directed == Some(n) && Some(&v) == present.get(n) {
                    v = c.iter().take(4).find(|x| Some(*x) != present.get(n)).cloned().unwrap_or(v);
                }
                if git::ok(tmpl, &["update-ref", n, &v]).is_ok() {
                    present.insert(n.to_string(), v);
                    placement.push_str("+stale");
                }
            }
        }
    } else {
        placement.push_str("loose");
    }
    let with_sym = r.chance(1, 3);
    if with_sym {
        let _ = git::ok(tmpl, &["symbolic-ref", "refs/heads/sym", "refs/heads/a"]);
    }
    // edits
    let mut candidates: Vec<&str> = vec!["HEAD", "refs/heads/main", "refs/heads/a", "refs/heads/dir/b", "refs/tags/t", "refs/heads/dir/sub/c", "refs/heads/new/x/y"];
    if with_sym {
        candidates.push("refs/heads/sym");
    }
    r.shuffle(&mut candidates);
    if let Some(d) = directed {
        candidates.retain(|n| *n != d);
        candidates.insert(0, d);
    }
    let n_edits = 1 + r.usize(3);
    let mut edits = Vec::new();
    let mut used: BTreeSet<String> = BTreeSet::new();
    let mut kinds = Vec::new();
    for name in candidates.into_iter() {
        if edits.len() >= n_edits {
            break;
        }
        let is_sym = name == "HEAD" || name == "refs/heads/sym";
        let referent = if name == "HEAD" { "refs/heads/main" } else { "refs/heads/a" };
        let deref = is_sym && r.chance(2, 3);
        let effective = if deref { referent } else { name };
        if used.contains(effective) || used.contains(name) {
            continue;
        }
        used.insert(effective.to_string());
        used.insert(name.to_string());
        let cur = present.get(effective).cloned();
        let delete = cur.is_some() && (r.chance(1, 3) || directed == Some(name)) && !(name == "HEAD" && !deref);
        let expected = match (cur.as_ref(), r.below(4)) {
            (Some(v), 0) if !(is_sym && !deref) => json!({"kind": "must-exist-and-match", "value": {"oid": v}}),
            (Some(_), 1) => json!({"kind": "must-exist"}),
            (None, 1) if !delete => json!({"kind": "must-not-exist"}),
            _ => json!({"kind": "any"}),
        };
        if delete {
            kinds.push(format!("delete{}", if deref { "-deref" } else { "" }));
            edits.push(json!({"name": name, "deref": deref, "delete": true, "expected": expected}));
        } else {
            let to_sym = !is_sym && cur.is_none() && r.chance(1, 6);
            let new = if to_sym { json!({"sym": "refs/heads/main"}) } else { json!({"oid": c[4 - r.usize(2)]}) };
            kinds.push(format!("{}{}{}", if cur.is_some() { "update" } else { "create" }, if deref { "-deref" } else { "" }, if to_sym { "-symbolic" } else { "" }));
            edits.push(json!({"name": name, "deref": deref, "delete": false, "expected": expected, "new": new, "force_log": r.chance(1, 3)}));
        }
    }
    let packed = *r.pick(&["deletions-only", "updates", "updates-remove-loose"]);
    let reflog = *r.pick(&["always", "always", "disable"]);
    kinds.sort();
    let mut names: BTreeSet<String> = pool.iter().map(|s| s.to_string()).collect();
    names.insert("HEAD".into());
    names.insert("refs/heads/sym".into());
    names.insert("refs/heads/new/x/y".into());
    names.insert(format!("refs/keep/{}", c.len() - 1));
    Some(Scenario {
        spec: json!({"edits": edits, "packed": packed, "reflog": reflog}),
        names,
        shape: format!("{}|{}|{}|{}{}", kinds.join(","), packed, reflog, placement, if directed.is_some() { "|directed-stale-delete" } else { "" }),
    })
}

pub fn run(ctx: &mut Ctx) {
    ctx.rule("case = one reference transaction on a git-made repository (loose/packed/stale-packed refs, symbolic HEAD, nested names) x EVERY filesystem-mutating syscall index of its commit as SIGKILL point; distinct = (syscall kind at the kill point, file class it touches, transaction shape)");
    ctx.assume("crash = process death between syscalls (strace kills the worker on entry of its k-th mutating syscall); torn single writes and power loss are not modelled");
    ctx.assume("atomicity is demanded per reference (the API documents multi-ref commits as non-atomic)");
    let exe = crate::fw::self_exe().expect("exe");
    if !Path::new("/usr/bin/strace").exists() {
        ctx.inconclusive("strace not available");
        return;
    }
    let n = ctx.n(8, 400);
    ctx.cases("transaction", n, |ctx, r| {
        let tmpl = ctx.dir("tmpl");
        let Some(sc) = setup_template(ctx, r, &tmpl) else { return };
        let work = ctx.dir("work");
        let (old_files, _old_dirs) = snapshot(&tmpl);
        let old_view = match git_view(&tmpl, &sc.names) {
            Ok(v) => v,
            Err(e) => {
                ctx.inconclusive(&e);
                return;
            }
        };
        // dry run
        let d0 = work.join("d0");
        if copy_tree(&tmpl, &d0).is_err() {
            ctx.inconclusive("copy failed");
            return;
        }
        let mut spec = sc.spec.clone();
        spec["git_dir"] = json!(d0.display().to_string());
        let spec_path = work.join("spec0.json");
        std::fs::write(&spec_path, spec.to_string()).unwrap();
        let log0 = work.join("log0");
        let (out, _code) = match run_worker(&exe, &spec_path, &log0, None) {
            Ok(x) => x,
            Err(e) => {
                ctx.inconclusive(&e);
                return;
            }
        };
        if out.starts_with("PREPARE-ERR") {
            ctx.count("transactions_rejected_in_prepare");
            return;
        }
        if !out.starts_with("COMMITTED") {
            ctx.count("transactions_commit_error_uninjected");
            return;
        }
        let Some(trace) = std::fs::read_to_string(&log0).ok().and_then(|l| parse_trace(&l)) else {
            ctx.inconclusive("could not parse the strace log of the dry run");
            return;
        };
        let (new_files, _new_dirs) = snapshot(&d0);
        // each observer is compared with its own reading of the old and of the new state (git does not list
        // dangling symbolic refs, gitoxide reads them as what they are)
        let old_gview = gix_view(&tmpl, &sc.names);
        let new_gview = gix_view(&d0, &sc.names);
        let new_view = match git_view(&d0, &sc.names) {
            Ok(v) => v,
            Err(e) => {
                ctx.inconclusive(&e);
                return;
            }
        };
        ctx.count("transactions_explored");
        let window: Vec<String> = trace.window.iter().map(|w| strip_dir(w, &d0)).collect();
        ctx.count_n("mutating_syscalls_in_commit_windows", trace.window.len() as u64);
        // enumerate every crash point, 6 at a time
        let mut ks: Vec<usize> = (1..=trace.window.len()).collect();
        if ctx.quick() {
            // quick tier: within a run of consecutive write() calls on the same fd (gitoxide writes a reflog
            // line with ~50 tiny writes) keep the first two, one in the middle and the last as kill points
            let fd_of = |w: &str| w.strip_prefix("write(").and_then(|r| r.split(',').next().map(str::to_string));
            let mut keep = Vec::new();
            let mut i = 0;
            while i < window.len() {
                let mut j = i;
                if let Some(fd) = fd_of(&window[i]) {
                    while j + 1 < window.len() && fd_of(&window[j + 1]).as_deref() == Some(&fd) {
                        j += 1;
                    }
                }
                if j - i >= 5 {
                    keep.extend([i, i + 1, (i + j) / 2, j]);
                    ctx.count_n("quick_tier_write_run_points_skipped", (j - i + 1 - 4) as u64);
                } else {
                    keep.extend(i..=j);
                }
                i = j + 1;
            }
            ks = keep.into_iter().map(|x| x + 1).collect();
        }
        ctx.count_n("crash_points_enumerated", ks.len() as u64);
        struct CrashResult {
            k: usize,
            aligned: bool,
            problems: Vec<(String, String)>,
            syscall: String,
        }
        let results: Vec<CrashResult> = std::thread::scope(|s| {
            let chunks: Vec<Vec<usize>> = (0..6).map(|w| ks.iter().copied().filter(|k| k % 6 == w).collect()).collect();
            let mut hs = Vec::new();
            for chunk in chunks {
                let (tmpl, work, exe, sc_spec, names) = (&tmpl, &work, &exe, &sc.spec, &sc.names);
                let (old_files, new_files, old_view, new_view, window, base, ordinals) = (&old_files, &new_files, &old_view, &new_view, &window, trace.base, &trace.ordinals);
                let (old_gview, new_gview) = (&old_gview, &new_gview);
                hs.push(s.spawn(move || {
                    let mut out = Vec::new();
                    for k in chunk {
                        let dk = work.join(format!("d{k}"));
                        let _ = std::fs::remove_dir_all(&dk);
                        if copy_tree(tmpl, &dk).is_err() {
                            continue;
                        }
                        let mut spec = sc_spec.clone();
                        spec["git_dir"] = json!(dk.display().to_string());
                        let sp = work.join(format!("spec{k}.json"));
                        std::fs::write(&sp, spec.to_string()).unwrap();
                        let lg = work.join(format!("log{k}"));
                        let res = run_worker(exe, &sp, &lg, Some(&ordinals[k - 1]));
                        let logtxt = std::fs::read_to_string(&lg).unwrap_or_default();
                        let (count, last) = count_set_syscalls(&logtxt);
                        let last_n = strip_dir(&last, &dk);
                        let want = &window[k - 1];
                        // aligned: the killed syscall is the k-th of the window (same name and path argument)
                        let same = |a: &str, b: &str| a.split(|c| c == ',' || c == ')').next() == b.split(|c| c == ',' || c == ')').next();
                        let aligned = res.is_ok() && count == base + k && same(&last_n, want) && logtxt.contains("killed by SIGKILL");
                        let mut problems = Vec::new();
                        if aligned {
                            let view = git_view(&dk, names).unwrap_or_default();
                            let gview = gix_view(&dk, names);
                            for n in names.iter() {
                                let (o, nw) = (old_view.get(n), new_view.get(n));
                                let g = view.get(n);
                                if g != o && g != nw {
                                    problems.push((format!("ref-state|git|{}", classify(g, o, nw)), format!("{n}: git reads {:?}, old {:?}, new {:?}", g, o, nw)));
                                }
                                let x = gview.get(n);
                                let (o, nw) = (old_gview.get(n), new_gview.get(n));
                                if x != o && x != nw {
                                    problems.push((format!("ref-state|gitoxide|{}", classify(x, o, nw)), format!("{n}: gitoxide reads {:?}, old {:?}, new {:?}", x, o, nw)));
                                }
                            }
                            let (files, _dirs) = snapshot(&dk);
                            let pk = files.get("packed-refs");
                            if pk != old_files.get("packed-refs") && pk != new_files.get("packed-refs") {
                                problems.push(("packed-refs|neither-old-nor-new".into(), format!("packed-refs after crash is neither the old nor the new file ({} bytes)", pk.map_or(0, Vec::len))));
                            }
                            for (f, content) in &files {
                                if f == "packed-refs" || f.ends_with(".lock") {
                                    continue;
                                }
                                let (o, nw) = (old_files.get(f), new_files.get(f));
                                if f.starts_with("logs/") {
                                    let okc = Some(content) == o
                                        || Some(content) == nw
                                        || nw.map_or(false, |nw| nw.starts_with(content) && o.map_or(true, |o| content.starts_with(o)))
                                        || (o.is_none() && nw.is_none() && content.is_empty());
                                    if !okc {
                                        problems.push(("reflog|content".into(), format!("{f}: reflog content is neither old, new nor in between")));
                                    }
                                    continue;
                                }
                                if o.is_none() && nw.is_none() {
                                    problems.push(("leftover|non-lock-file".into(), format!("{f}: file exists in neither the old nor the new state and is not a lock file")));
                                }
                            }
                        }
                        out.push(CrashResult { k, aligned, problems, syscall: want.clone() });
                        let _ = std::fs::remove_dir_all(&dk);
                    }
                    out
                }));
            }
            hs.into_iter().flat_map(|h| h.join().unwrap_or_default()).collect()
        });
        let mut aligned_n = 0u64;
        for cr in &results {
            ctx.eval();
            if !cr.aligned {
                ctx.count("crash_points_discarded_not_aligned");
                continue;
            }
            aligned_n += 1;
            let sys = cr.syscall.split('(').next().unwrap_or("").to_string();
            let class = file_class(&cr.syscall);
            ctx.count(&format!("kill_before:{sys}"));
            ctx.distinct((sys.clone(), class, sc.shape.clone()));
            for (sig, what) in &cr.problems {
                ctx.violation(
                    &format!("{sig}|killed-before:{sys}:{class}"),
                    what,
                    json!({"spec": sc.spec, "shape": sc.shape, "kill_index": cr.k, "killed_before": cr.syscall, "window": window, "old": old_view, "new": new_view, "old_as_gitoxide_reads_it": old_gview, "new_as_gitoxide_reads_it": new_gview}),
                );
            }
        }
        ctx.count_n("crash_states_examined", aligned_n);
        if ctx.want_sample() {
            ctx.sample(json!({"spec": sc.spec, "shape": sc.shape, "mutating_syscalls_in_commit": window, "crash_states_examined": aligned_n}));
        }
    });
    let tier_note = if ctx.quick() { "quick tier: every mutating syscall between the markers is a kill point, except that runs of >5 consecutive write() calls on one fd are sampled at 4 points (counted in quick_tier_write_run_points_skipped)" } else { "every mutating syscall between the markers is a kill point (non-aligned runs are discarded and counted)" };
    ctx.note("exhaustive_per_transaction", json!(tier_note));
}

fn classify(got: Option<&String>, old: Option<&String>, new: Option<&String>) -> &'static str {
    match got {
        None => "missing",
        Some(g) if g.starts_with("broken:") => "broken",
        Some(_) if old.is_none() && new.is_none() => "appeared",
        Some(_) => "third-value",
    }
}

fn file_class(syscall: &str) -> &'static str {
    if syscall.contains("packed-refs") {
        "packed-refs"
    } else if syscall.contains("/logs/") || syscall.contains("<D>/logs") {
        "reflog"
    } else if syscall.contains(".lock") {
        "lock-file"
    } else if syscall.contains("refs/") || syscall.contains("HEAD") {
        "loose-ref"
    } else {
        "other"
    }
}
