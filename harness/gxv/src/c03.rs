//! C03 Tree entry ordering and name lookup match git.
//! Oracles: (G) `git mktree --batch -z --missing` sorts the same (name, mode) set itself — id equality with
//! `sort()` + `write_to` + `compute_hash` is an exact order check; (M) a transcription of git's
//! `base_name_compare` plus an independent serializer/SHA-1 locates the misordered pair; (M) linear scan
//! for `TreeRef::bisect_entry(name, is_dir)`.
use crate::fw::{self, git, guard, hex, show, Ctx, Rng};
use bstr::{BString, ByteSlice};
use gix_hash::ObjectId;
use gix_object::tree::{Entry, EntryKind, EntryRef};
use gix_object::{Tree, TreeRef, WriteTo};
use serde_json::{json, Value};
use std::cmp::Ordering;
use std::collections::BTreeSet;

pub fn child(_mode: &str) {}

const KINDS: [EntryKind; 5] = [
    EntryKind::Tree,
    EntryKind::Blob,
    EntryKind::BlobExecutable,
    EntryKind::Link,
    EntryKind::Commit,
];

/// independent table (not `as_octal_str`)
fn mode_str(k: EntryKind) -> (&'static str, &'static str, bool) {
    match k {
        EntryKind::Tree => ("40000", "tree", true),
        EntryKind::Blob => ("100644", "blob", false),
        EntryKind::BlobExecutable => ("100755", "blob", false),
        EntryKind::Link => ("120000", "blob", false),
        EntryKind::Commit => ("160000", "commit", false),
    }
}
fn kind_name(k: EntryKind) -> &'static str {
    match k {
        EntryKind::Tree => "tree",
        EntryKind::Blob => "blob",
        EntryKind::BlobExecutable => "exe",
        EntryKind::Link => "link",
        EntryKind::Commit => "commit",
    }
}

/// git's tree.c/read-cache.c `base_name_compare`, transcribed. Names are NUL-free, so `name[len]` of the C
/// code (the terminator) is modelled by 0.
fn base_name_compare(n1: &[u8], dir1: bool, n2: &[u8], dir2: bool) -> Ordering {
    let len = n1.len().min(n2.len());
    let c = n1[..len].cmp(&n2[..len]);
    if c != Ordering::Equal {
        return c;
    }
    let mut c1 = n1.get(len).copied().unwrap_or(0);
    let mut c2 = n2.get(len).copied().unwrap_or(0);
    if c1 == 0 && dir1 {
        c1 = b'/';
    }
    if c2 == 0 && dir2 {
        c2 = b'/';
    }
    c1.cmp(&c2)
}

const STEMS: &[&[u8]] = &[
    b"a", b"a", b"a", b"b", b"ab", b"a-", b"a.", b"a0", b"a.b", b"a-b", b"A", b"aa", b"a b", b".", b"..", b".git", b"\xc3\xa9",
    b"\x01", b"\xff", b"-", b"0", b"~", b"a\\", b"\"a\"", b"a\tb", b"a\nb",
];

fn suffix_byte(r: &mut Rng) -> u8 {
    match r.below(12) {
        0 => 0x2e,
        1 => 0x30,
        2 => 0x2d,
        3 => 0x7f,
        4 => 0x80,
        5 => 0xff,
        6 => 0x01,
        7 | 8 => r.range(0x01, 0x2e) as u8,
        9 => r.range(0x30, 0xff) as u8,
        10 => b'a',
        _ => *r.pick(b" !\"#$%&'()*+,-.0:;@[\\]^_`{|}~\t\n\r"),
    }
}

fn fresh_name(r: &mut Rng) -> Vec<u8> {
    match r.below(12) {
        0 => {
            let n = 1 + r.usize(5);
            (0..n)
                .map(|_| loop {
                    let b = r.next_u64() as u8;
                    if b != 0 && b != b'/' {
                        break b;
                    }
                })
                .collect()
        }
        1 => vec![suffix_byte(r)],
        _ => {
            let mut v = r.pick(STEMS).to_vec();
            for _ in 0..r.below(3) {
                if r.chance(1, 3) {
                    break;
                }
                v.push(suffix_byte(r));
            }
            v
        }
    }
}

#[derive(Clone, Debug)]
struct E {
    name: Vec<u8>,
    kind: EntryKind,
    oid: ObjectId,
}

fn rid(r: &mut Rng) -> ObjectId {
    let mut b = [0u8; 20];
    for x in b.iter_mut() {
        *x = r.next_u64() as u8;
    }
    if b == [0u8; 20] {
        b[0] = 1;
    }
    ObjectId::from(b)
}

/// a set of distinct names built to contain prefix chains, every name with one of the five kinds
fn gen_set(r: &mut Rng, max: usize) -> Vec<E> {
    let n = match r.below(10) {
        0 => r.usize(3),
        1..=6 => 2 + r.usize(10),
        _ => r.usize(max + 1),
    };
    let mut names: Vec<Vec<u8>> = Vec::new();
    let mut seen = BTreeSet::new();
    let mut tries = 0;
    while names.len() < n && tries < n * 4 + 8 {
        tries += 1;
        let cand = if !names.is_empty() && r.chance(3, 5) {
            // derive from an existing name: extend (prefix relation) or cut
            let base = r.pick(&names).clone();
            match r.below(6) {
                0 if base.len() > 1 => base[..base.len() - 1].to_vec(),
                1 => {
                    let mut v = base;
                    v.extend_from_slice(*r.pick(STEMS));
                    v
                }
                _ => {
                    let mut v = base;
                    v.push(suffix_byte(r));
                    if r.chance(1, 4) {
                        v.push(suffix_byte(r));
                    }
                    v
                }
            }
        } else {
            fresh_name(r)
        };
        if cand.is_empty() || cand.contains(&0) || cand.contains(&b'/') || cand.len() > 40 {
            continue;
        }
        if seen.insert(cand.clone()) {
            names.push(cand);
        }
    }
    // trees are over-represented: the implicit '/' is the interesting part
    names
        .into_iter()
        .map(|name| E { name, kind: if r.chance(2, 5) { EntryKind::Tree } else { *r.pick(&KINDS) }, oid: rid(r) })
        .collect()
}

fn byte_class(b: u8) -> &'static str {
    match b {
        0x00..=0x1f => "ctl",
        0x20..=0x2c => "lt-",
        0x2d => "-",
        0x2e => ".",
        0x2f => "/",
        0x30 => "0",
        0x31..=0x7e => "gt0",
        0x7f => "del",
        0x80..=0xfe => "hi",
        0xff => "ff",
    }
}

/// classes of all (x proper prefix of y) pairs of the set
fn pair_classes(set: &[E]) -> BTreeSet<(&'static str, &'static str, bool)> {
    let mut out = BTreeSet::new();
    for x in set {
        for y in set {
            if y.name.len() > x.name.len() && y.name.starts_with(&x.name) {
                out.insert((kind_name(x.kind), byte_class(y.name[x.name.len()]), y.kind == EntryKind::Tree));
            }
        }
    }
    out
}

fn model_bytes(sorted: &[E]) -> Vec<u8> {
    let mut out = Vec::new();
    for e in sorted {
        out.extend_from_slice(mode_str(e.kind).0.as_bytes());
        out.push(b' ');
        out.extend_from_slice(&e.name);
        out.push(0);
        out.extend_from_slice(e.oid.as_bytes());
    }
    out
}

fn set_json(set: &[E]) -> Value {
    Value::Array(set.iter().map(|e| json!({"name": show(&e.name), "kind": kind_name(e.kind)})).collect())
}

/// describe the first adjacent pair of `got` which the model orders the other way round
fn misorder_class(got: &[(Vec<u8>, bool)]) -> (String, Value) {
    for w in got.windows(2) {
        let (a, b) = (&w[0], &w[1]);
        if base_name_compare(&a.0, a.1, &b.0, b.1) == Ordering::Greater {
            let (short, long) = if a.0.len() <= b.0.len() { (a, b) } else { (b, a) };
            let class = if long.0.starts_with(&short.0) && long.0.len() > short.0.len() {
                format!(
                    "prefix-{}-vs-next-{}",
                    if short.1 { "tree" } else { "nontree" },
                    byte_class(long.0[short.0.len()])
                )
            } else if long.0 == short.0 {
                "same-name".to_string()
            } else {
                "unrelated".to_string()
            };
            return (class, json!({"first": show(&a.0), "first_is_tree": a.1, "second": show(&b.0), "second_is_tree": b.1}));
        }
    }
    ("none".into(), Value::Null)
}

struct Prepared {
    set: Vec<E>,
    model_sorted: Vec<E>,
    model: Vec<u8>,
    model_id: [u8; 20],
    gix_bytes: Option<Vec<u8>>,
}

fn check_set(ctx: &mut Ctx, r: &mut Rng, set: Vec<E>) -> Prepared {
    ctx.eval();
    let mut model_sorted = set.clone();
    model_sorted.sort_by(|a, b| base_name_compare(&a.name, a.kind == EntryKind::Tree, &b.name, b.kind == EntryKind::Tree));
    let model = model_bytes(&model_sorted);
    let model_id = fw::git_oid("tree", &model);
    let pc = pair_classes(&set);
    ctx.distinct(("set", set.len().min(12), pc.iter().cloned().collect::<Vec<_>>()));
    ctx.count_n("prefix_pair_classes_seen_total", pc.len() as u64);
    for e in &set {
        ctx.count(&format!("entries_{}", kind_name(e.kind)));
    }
    if ctx.want_sample() {
        ctx.sample(json!({"entries_in_git_order": set_json(&model_sorted), "tree_id": hex(&model_id)}));
    }

    // (1) owned entries: sort() + write_to + compute_hash
    let mut entries: Vec<Entry> = set
        .iter()
        .map(|e| Entry { mode: e.kind.into(), filename: BString::from(e.name.clone()), oid: e.oid })
        .collect();
    r.shuffle(&mut entries);
    let shuffled = entries.clone();
    let res = guard(move || {
        let mut t = Tree { entries };
        t.entries.sort();
        let mut buf = Vec::new();
        let w = t.write_to(&mut buf).map_err(|e| e.to_string());
        (t, buf, w)
    });
    let mut gix_bytes = None;
    match res {
        Err(p) => ctx.panic_violation("Tree::sort+write_to", &p, "set", json!({"set": set_json(&set)})),
        Ok((t, buf, w)) => {
            if let Err(e) = w {
                ctx.violation("write|Tree::write_to-error", "write_to of a NUL-free sorted tree failed", json!({"set": set_json(&set), "err": e}));
            } else {
                if t.size() != buf.len() as u64 {
                    ctx.violation("write|Tree::size", "size() differs from bytes written", json!({"set": set_json(&set)}));
                }
                let id = gix_object::compute_hash(gix_hash::Kind::Sha1, gix_object::Kind::Tree, &buf);
                if buf != model || id.as_bytes() != model_id {
                    let got: Vec<_> = t.entries.iter().map(|e| (e.filename.to_vec(), e.mode.is_tree())).collect();
                    let (class, pair) = misorder_class(&got);
                    ctx.violation(
                        &format!("order|tree::Entry::cmp-vs-base_name_compare|{class}"),
                        "sort() of owned tree entries differs from git's base_name_compare order (tree bytes/id differ)",
                        json!({"input_order": shuffled.iter().map(|e| json!({"name": show(&e.filename), "kind": e.mode.as_str()})).collect::<Vec<_>>(),
                               "gix_order": t.entries.iter().map(|e| show(&e.filename)).collect::<Vec<_>>(),
                               "git_order": model_sorted.iter().map(|e| show(&e.name)).collect::<Vec<_>>(),
                               "pair": pair, "gix_id": id.to_string(), "model_id": hex(&model_id)}),
                    );
                }
                gix_bytes = Some(buf);
            }
        }
    }

    // (2) borrowed entries (separate Ord impl) + TreeRef::write_to
    let mut refs: Vec<EntryRef<'_>> = shuffled
        .iter()
        .map(|e| EntryRef { mode: e.mode, filename: e.filename.as_bstr(), oid: e.oid.as_ref() })
        .collect();
    let res = guard(move || {
        refs.sort();
        let t = TreeRef { entries: refs };
        let mut buf = Vec::new();
        let w = t.write_to(&mut buf).map_err(|e| e.to_string());
        (t, buf, w)
    });
    match res {
        Err(p) => ctx.panic_violation("TreeRef::sort+write_to", &p, "set", json!({"set": set_json(&set)})),
        Ok((t, buf, w)) => {
            if w.is_err() || buf != model {
                let got: Vec<_> = t.entries.iter().map(|e| (e.filename.to_vec(), e.mode.is_tree())).collect();
                let (class, pair) = misorder_class(&got);
                ctx.violation(
                    &format!("order|tree::EntryRef::cmp-vs-base_name_compare|{class}"),
                    "sort() of borrowed tree entries differs from git's base_name_compare order",
                    json!({"gix_order": t.entries.iter().map(|e| show(e.filename)).collect::<Vec<_>>(),
                           "git_order": model_sorted.iter().map(|e| show(&e.name)).collect::<Vec<_>>(), "pair": pair, "write_err": w.err()}),
                );
            }
        }
    }
    // (3) pairwise: cmp is antisymmetric and agrees with the model on every pair of a small sample
    for _ in 0..set.len().min(6) {
        let (a, b) = (r.pick(&shuffled), r.pick(&shuffled));
        let want = base_name_compare(&a.filename, a.mode.is_tree(), &b.filename, b.mode.is_tree());
        ctx.count("pairwise_cmp");
        if a.cmp(b) != want || b.cmp(a) != want.reverse() {
            ctx.violation(
                "order|tree::Entry::cmp-pairwise",
                "Entry::cmp disagrees with base_name_compare on a pair",
                json!({"a": show(&a.filename), "a_kind": a.mode.as_str(), "b": show(&b.filename), "b_kind": b.mode.as_str(),
                       "want": format!("{want:?}"), "got": format!("{:?}", a.cmp(b))}),
            );
        }
    }
    Prepared { set, model_sorted, model, model_id, gix_bytes }
}

/// lookups in the canonical (git-sorted) tree
fn check_lookups(ctx: &mut Ctx, r: &mut Rng, p: &Prepared, canonical: &[u8]) {
    let tree = match guard(|| TreeRef::from_bytes(canonical)) {
        Err(pi) => {
            ctx.panic_violation("TreeRef::from_bytes", &pi, "git-tree", json!({"set": set_json(&p.set)}));
            return;
        }
        Ok(Err(e)) => {
            ctx.violation("decode|TreeRef::from_bytes-rejects-git-tree", "canonical tree rejected", json!({"set": set_json(&p.model_sorted), "err": e.to_string()}));
            return;
        }
        Ok(Ok(t)) => t,
    };
    if tree.entries.len() != p.model_sorted.len()
        || tree
            .entries
            .iter()
            .zip(&p.model_sorted)
            .any(|(a, b)| a.filename != b.name.as_bstr() || a.mode.kind() != b.kind || a.oid != b.oid)
    {
        ctx.violation("decode|TreeRef-entries-differ", "decoded entries differ from the entries written", json!({"set": set_json(&p.model_sorted)}));
        return;
    }
    // queries: every present name with both kinds, neighbours, random
    let mut queries: Vec<(Vec<u8>, &'static str)> = Vec::new();
    for e in &p.set {
        queries.push((e.name.clone(), "present"));
        if r.chance(1, 2) {
            let mut v = e.name.clone();
            v.push(suffix_byte(r));
            queries.push((v, "extended"));
        }
        if e.name.len() > 1 && r.chance(1, 2) {
            queries.push((e.name[..e.name.len() - 1].to_vec(), "truncated"));
        }
        if r.chance(1, 4) {
            let mut v = e.name.clone();
            let i = r.usize(v.len());
            v[i] = suffix_byte(r);
            queries.push((v, "byte-changed"));
        }
    }
    for _ in 0..2 {
        queries.push((fresh_name(r), "fresh"));
    }
    for (q, qclass) in queries {
        if q.is_empty() || q.contains(&0) || q.contains(&b'/') {
            continue;
        }
        for is_dir in [false, true] {
            ctx.eval();
            ctx.count("lookups");
            let want = p.set.iter().find(|e| e.name == q && (e.kind == EntryKind::Tree) == is_dir);
            let same_name_kind = p.set.iter().find(|e| e.name == q).map(|e| kind_name(e.kind)).unwrap_or("absent");
            let got = match guard(|| tree.bisect_entry(q.as_bstr(), is_dir)) {
                Ok(g) => g,
                Err(pi) => {
                    ctx.panic_violation("TreeRef::bisect_entry", &pi, "lookup", json!({"tree": set_json(&p.model_sorted), "name": show(&q), "is_dir": is_dir}));
                    continue;
                }
            };
            // position class of the query in the sorted tree: how many prefix-related neighbours surround it
            let related = p.set.iter().filter(|e| e.name != q && (e.name.starts_with(&q) || q.starts_with(&e.name))).count().min(3);
            ctx.distinct(("lookup", qclass, is_dir, same_name_kind, related, p.set.len().min(8)));
            if want.is_some() {
                ctx.count("lookups_expected_found");
            }
            let ok = match (want, got) {
                (None, None) => true,
                (Some(w), Some(g)) => g.filename == w.name.as_bstr() && g.mode.kind() == w.kind && g.oid == w.oid,
                _ => false,
            };
            if !ok {
                let class = match (want.is_some(), got.is_some()) {
                    (true, false) => "missed",
                    (false, true) => "phantom",
                    _ => "wrong-entry",
                };
                ctx.violation(
                    &format!("lookup|bisect_entry|{class}|is_dir={is_dir}|same-name-entry={same_name_kind}"),
                    "bisect_entry disagrees with a linear scan for (name, is_dir)",
                    json!({"tree": set_json(&p.model_sorted), "name": show(&q), "is_dir": is_dir,
                           "want": want.map(|w| json!({"name": show(&w.name), "kind": kind_name(w.kind)})),
                           "got": got.map(|g| json!({"name": show(g.filename), "kind": g.mode.as_str()}))}),
                );
            }
        }
    }
}

pub fn run(ctx: &mut Ctx) {
    ctx.rule(
        "case = batch of name sets; a set = 0..30 distinct NUL/slash-free names (stems a, a-, a., a0, ab, a.b …, extended by bytes around '/': \
         0x01..0x2e, 0x30, 0x7f, 0x80, 0xff, so that names are prefixes of each other) × the five entry kinds; each set is shuffled, sorted by gitoxide \
         (owned and borrowed Ord), written and hashed, and compared with git mktree (which sorts itself) and a base_name_compare transcription; \
         then every present name, extensions/truncations/byte changes of it and fresh names are looked up as file and as directory. \
         distinct = (set size bucket, set of (kind of prefix entry, class of the byte following the prefix, longer entry is tree)) for sets, \
         (query class, is_dir, kind of the same-name entry, #prefix-related entries, size bucket) for lookups",
    );
    ctx.assume("'kind' of a lookup is directory (mode 040000) vs. non-directory; a submodule (160000) entry is a non-directory, as in git's base_name_compare");
    let repo = ctx.dir("repo");
    let have_git = match git::init(&repo, true) {
        Ok(()) => true,
        Err(e) => {
            ctx.inconclusive(&format!("git init failed: {e}"));
            false
        }
    };
    let per_case = 200usize;
    let n_cases = ctx.n(15, 1000);
    let max = if ctx.quick() { 30 } else { 40 };
    ctx.cases("sets", n_cases, |ctx, r| {
        let mut prepared = Vec::with_capacity(per_case);
        let mut input = Vec::new();
        for _ in 0..per_case {
            let set = gen_set(r, max);
            let p = check_set(ctx, r, set);
            // git gets the entries in yet another order
            let mut order: Vec<usize> = (0..p.set.len()).collect();
            r.shuffle(&mut order);
            for i in order {
                let e = &p.set[i];
                let (m, t, _) = mode_str(e.kind);
                input.extend_from_slice(format!("{} {} {}\t", m, t, hex(e.oid.as_bytes())).as_bytes());
                input.extend_from_slice(&e.name);
                input.push(0);
            }
            input.push(0);
            prepared.push(p);
        }
        let mut git_ids: Option<Vec<String>> = None;
        if have_git {
            match git::run_in(&repo, &["mktree", "--batch", "-z", "--missing"], &input) {
                Ok(o) if o.ok => {
                    let ids: Vec<String> = o.text().lines().map(|l| l.trim().to_string()).collect();
                    if ids.len() == prepared.len() {
                        ctx.count("git_mktree_calls");
                        git_ids = Some(ids);
                    } else {
                        ctx.inconclusive(&format!("git mktree --batch returned {} ids for {} trees", ids.len(), prepared.len()));
                    }
                }
                Ok(o) => ctx.inconclusive(&format!("git mktree failed: {}", o.err_text().chars().take(200).collect::<String>())),
                Err(e) => ctx.inconclusive(&format!("git mktree spawn failed: {e}")),
            }
            // keep the scratch store small
            if let Ok(rd) = std::fs::read_dir(repo.join("objects")) {
                for d in rd.flatten() {
                    if d.file_name().len() == 2 {
                        let _ = std::fs::remove_dir_all(d.path());
                    }
                }
            }
        }
        for (i, p) in prepared.iter().enumerate() {
            let mut canonical: Option<&[u8]> = None;
            if let Some(ids) = &git_ids {
                ctx.count("sets_compared_with_git");
                let git_id = &ids[i];
                let model_ok = *git_id == hex(&p.model_id);
                if !model_ok {
                    ctx.count("model_differs_from_git");
                }
                match &p.gix_bytes {
                    Some(b) => {
                        let gid = gix_object::compute_hash(gix_hash::Kind::Sha1, gix_object::Kind::Tree, b).to_string();
                        if gid != *git_id {
                            let pc = pair_classes(&p.set);
                            let has_tree_prefix = pc.iter().any(|c| c.0 == "tree");
                            ctx.violation(
                                &format!("order|id-vs-git-mktree|{}", if has_tree_prefix { "tree-is-prefix" } else { "other" }),
                                "tree written from gitoxide-sorted entries hashes differently from git mktree on the same entries",
                                json!({"set": set_json(&p.set), "gix_id": gid, "git_id": git_id, "model_id": hex(&p.model_id)}),
                            );
                        } else {
                            canonical = Some(b);
                            if !model_ok {
                                ctx.inconclusive("harness base_name_compare transcription disagrees with git mktree while gitoxide agrees");
                            }
                        }
                    }
                    None => {}
                }
                if canonical.is_none() && model_ok {
                    canonical = Some(&p.model);
                }
            } else if p.gix_bytes.as_deref() == Some(&p.model[..]) {
                // git unavailable: the model vouches
                canonical = Some(&p.model);
            }
            if let Some(c) = canonical {
                let c = c.to_vec();
                check_lookups(ctx, r, p, &c);
            } else {
                ctx.count("sets_without_canonical_tree");
            }
        }
    });
}
