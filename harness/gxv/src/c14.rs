//! C14 Commit-graph data agrees with the commits it describes.
//! Oracle: state comparison (S) of every commit read through `gix_commitgraph::Graph`
//! (parents in order, root tree, committer time, generation, id/position lookups) against
//! the commit object itself (read with gix-odb, decoded with `CommitRef`, cross-checked with
//! the generator's own record of parents/time). git is used only to write the graph
//! (single file or split chain of 1..4 files, with/without bloom filters, generation v1/v2).
use crate::fw::{git, guard, repogen, Ctx, Rng};
use gix_hash::ObjectId;
use gix_object::FindExt;
use serde_json::json;
use std::collections::HashSet;
use std::fmt::Write as _;
use std::path::Path;

pub fn child(_mode: &str) {}

struct Node {
    id: ObjectId,
    hex: String,
    parents: Vec<usize>,
    time: i64,
}

const T34: i64 = 1 << 34;

fn boundary_time(r: &mut Rng) -> i64 {
    match r.below(12) {
        0 => 0,
        1 => 1,
        2 => (1 << 31) - 1,
        3 => 1 << 31,
        4 => (1 << 32) - 1,
        5 => 1 << 32,
        6 => (1 << 33) + r.range(0, 1000),
        7 => T34 - 1,
        8 => T34 - 1 - r.range(0, 1000),
        _ => r.range(0, T34 - 1),
    }
}

/// Append commits with boundary committer times (and wide octopus merges) on top of a repogen
/// history. They carry no file changes (tree of the first parent, or the empty tree for roots).
fn extend(dir: &Path, r: &mut Rng, nodes: &mut Vec<Node>, extra: usize, max_parents: usize, root_pct: u64) -> Result<(), String> {
    if extra == 0 {
        return Ok(());
    }
    let base = nodes.len();
    let mut stream = String::new();
    let mut planned: Vec<(Vec<usize>, i64)> = Vec::new();
    for k in 0..extra {
        let i = base + k;
        let mut parents: Vec<usize> = Vec::new();
        if !(i == 0 || r.chance(root_pct, 100)) {
            let np = if r.chance(1, 3) { 1 + r.usize(max_parents.max(1)) } else { 1 };
            for _ in 0..np {
                let p = if r.bool() { i - 1 - r.usize(4.min(i)) } else { r.usize(i) };
                if !parents.contains(&p) {
                    parents.push(p);
                }
            }
        }
        let t = boundary_time(r);
        let _ = writeln!(stream, "commit refs/keep/x{}", k);
        let _ = writeln!(stream, "mark :{}", k + 1);
        let _ = writeln!(stream, "author A U Thor <author@example.com> {} +0000", r.range(0, T34 - 1));
        let _ = writeln!(stream, "committer C O Mitter <committer@example.com> {} +0000", t);
        let msg = format!("ext {}\n", k);
        let _ = writeln!(stream, "data {}", msg.len());
        stream.push_str(&msg);
        for (n, p) in parents.iter().enumerate() {
            let kw = if n == 0 { "from" } else { "merge" };
            if *p >= base {
                let _ = writeln!(stream, "{} :{}", kw, p - base + 1);
            } else {
                let _ = writeln!(stream, "{} {}", kw, nodes[*p].hex);
            }
        }
        stream.push('\n');
        planned.push((parents, t));
    }
    let marks = dir.join("gxv-marks-x");
    let marks_arg = format!("--export-marks={}", marks.display());
    let o = git::run_in(dir, &["fast-import", "--quiet", &marks_arg], stream.as_bytes()).map_err(|e| e.to_string())?;
    if !o.ok {
        return Err(format!("fast-import (extension) failed: {}", o.err_text()));
    }
    let text = std::fs::read_to_string(&marks).map_err(|e| e.to_string())?;
    let mut ids = vec![String::new(); extra];
    for line in text.lines() {
        let mut it = line.split_whitespace();
        let (Some(m), Some(id)) = (it.next(), it.next()) else { continue };
        let idx: usize = m.trim_start_matches(':').parse::<usize>().map_err(|e| e.to_string())? - 1;
        if idx < extra {
            ids[idx] = id.to_string();
        }
    }
    let _ = std::fs::remove_file(&marks);
    for (k, (parents, t)) in planned.into_iter().enumerate() {
        if ids[k].is_empty() {
            return Err("extension marks incomplete".into());
        }
        let id = ObjectId::from_hex(ids[k].as_bytes()).map_err(|e| e.to_string())?;
        nodes.push(Node { id, hex: ids[k].clone(), parents, time: t });
    }
    Ok(())
}

struct Plan {
    /// (cut, args) one git invocation per layer
    writes: Vec<(usize, Vec<String>)>,
    split: bool,
    bloom: bool,
    genv1: bool,
}

fn plan(r: &mut Rng, n: usize) -> Plan {
    let split = r.chance(3, 4);
    let bloom = r.chance(1, 3);
    let genv1 = r.chance(1, 4);
    let mut writes = Vec::new();
    let pre: Vec<String> = if genv1 {
        vec!["-c".into(), "commitGraph.generationVersion=1".into()]
    } else {
        vec![]
    };
    let last_cut = if n > 1 && r.chance(1, 5) { 1 + r.usize(n - 1) } else { n };
    let layers = if split { (1 + r.usize(4)).min(last_cut) } else { 1 };
    // increasing cut points ending in last_cut
    let mut cuts: Vec<usize> = Vec::new();
    if layers > 1 {
        let mut set = HashSet::new();
        let mut guard_n = 0;
        while set.len() < layers - 1 && guard_n < 100 {
            set.insert(1 + r.usize(last_cut - 1));
            guard_n += 1;
        }
        cuts = set.into_iter().collect();
        cuts.sort_unstable();
    }
    cuts.push(last_cut);
    for (li, cut) in cuts.iter().enumerate() {
        let mut a = pre.clone();
        a.push("commit-graph".into());
        a.push("write".into());
        a.push("--stdin-commits".into());
        if split {
            match if li == 0 { 0 } else { r.below(20) } {
                0..=14 => a.push("--split=no-merge".into()),
                15..=17 => {
                    a.push("--split".into());
                    a.push(format!("--size-multiple={}", 1 + r.below(4)));
                    if r.bool() {
                        a.push(format!("--max-commits={}", 1 + r.below(64)));
                    }
                }
                _ => a.push("--split=replace".into()),
            }
        }
        // bloom filters only on some layers (mixed chains are legal)
        if bloom && r.chance(3, 4) {
            a.push("--changed-paths".into());
        }
        writes.push((*cut, a));
    }
    Plan { writes, split, bloom, genv1 }
}

fn time_class(t: i64) -> u8 {
    if t < (1 << 31) {
        0
    } else if t < (1 << 32) {
        1
    } else {
        2
    }
}

fn scenario(ctx: &mut Ctx, r: &mut Rng) {
    let dir = ctx.dir("repo");
    let quick = ctx.quick();
    let commits = match r.below(10) {
        0 => 1 + r.usize(3),
        1..=6 => 4 + r.usize(77),
        7 | 8 => 80 + r.usize(if quick { 100 } else { 170 }),
        _ => {
            if quick {
                150 + r.usize(250)
            } else {
                250 + r.usize(350)
            }
        }
    };
    let max_parents = *r.pick(&[1usize, 2, 3, 4, 8, 8]);
    let root_pct = *r.pick(&[0u64, 5, 5, 30]);
    let spec = repogen::DagSpec {
        commits,
        max_parents,
        merge_pct: *r.pick(&[10u64, 30, 60]),
        root_pct,
        time_mode: *r.pick(&[repogen::TimeMode::Increasing, repogen::TimeMode::Colliding, repogen::TimeMode::Skewed]),
        max_changes: 1 + r.usize(2),
        rich_trees: false,
        delta_fodder: false,
    };
    let repo = match repogen::build_dag(&dir, r, &spec) {
        Ok(x) => x,
        Err(e) => {
            ctx.inconclusive(&format!("repogen failed: {}", e.chars().take(120).collect::<String>()));
            return;
        }
    };
    ctx.count("git_calls");
    let mut nodes: Vec<Node> = Vec::with_capacity(commits + 16);
    for c in &repo.commits {
        let Ok(id) = ObjectId::from_hex(c.id.as_bytes()) else {
            ctx.inconclusive("repogen returned a non-hex id");
            return;
        };
        nodes.push(Node { id, hex: c.id.clone(), parents: c.parents.clone(), time: c.time });
    }
    let extra = if r.chance(3, 4) { 1 + r.usize(12) } else { 0 };
    if let Err(e) = extend(&dir, r, &mut nodes, extra, max_parents.max(2), root_pct) {
        ctx.inconclusive(&format!("extension failed: {}", e.chars().take(120).collect::<String>()));
        return;
    }
    ctx.count("git_calls");
    let n = nodes.len();
    let p = plan(r, n);
    for (cut, args) in &p.writes {
        let mut input = String::new();
        for nd in &nodes[..*cut] {
            input.push_str(&nd.hex);
            input.push('\n');
        }
        ctx.count("git_calls");
        match git::run_in(&dir, args, input.as_bytes()) {
            Ok(o) if o.ok => {}
            Ok(o) => {
                ctx.inconclusive(&format!("git commit-graph write failed: {}", o.err_text().chars().take(120).collect::<String>()));
                return;
            }
            Err(e) => {
                ctx.inconclusive(&format!("git spawn failed: {e}"));
                return;
            }
        }
    }
    let in_graph = p.writes.last().map(|w| w.0).unwrap_or(n);
    let info = dir.join("objects").join("info");
    let chain_path = info.join("commit-graphs").join("commit-graph-chain");
    let chain: Vec<String> = if p.split {
        match std::fs::read_to_string(&chain_path) {
            Ok(t) => t.lines().map(str::to_string).collect(),
            Err(_) => {
                ctx.inconclusive("git did not write a commit-graph-chain");
                return;
            }
        }
    } else {
        Vec::new()
    };
    let files_n = if p.split { chain.len() } else { 1 };
    let layout = if p.split { "chain" } else { "single" };
    let describe = json!({
        "commits": n, "in_graph": in_graph, "files": files_n, "layout": layout,
        "writes": p.writes.iter().map(|(c, a)| json!({"first_n_commits": c, "args": a})).collect::<Vec<_>>(),
        "max_parents": max_parents, "bloom": p.bloom, "generation_v1": p.genv1,
    });
    ctx.count(&format!("graphs_files_{}", files_n));
    if p.bloom {
        ctx.count("graphs_with_bloom_layers");
    }
    if p.genv1 {
        ctx.count("graphs_generation_v1");
    }

    // --- open through the public entry points
    let open_at = if p.split && r.bool() { info.join("commit-graphs") } else { info.clone() };
    let graph = match guard(|| gix_commitgraph::at(&open_at)) {
        Err(pn) => {
            ctx.panic_violation("gix_commitgraph::at", &pn, layout, describe);
            return;
        }
        Ok(Err(e)) => {
            ctx.violation(
                &format!("open|git-written-graph-rejected|{layout}"),
                "gix_commitgraph::at() rejected a commit-graph written by git",
                json!({"graph": describe, "error": e.to_string()}),
            );
            return;
        }
        Ok(Ok(g)) => g,
    };
    // per-file sizes (to classify positions); opened independently
    let mut file_sizes: Vec<u32> = Vec::new();
    if p.split {
        for (idx, h) in chain.iter().enumerate() {
            let fp = info.join("commit-graphs").join(format!("graph-{h}.graph"));
            match guard(|| gix_commitgraph::File::at(&fp)) {
                Ok(Ok(f)) => {
                    ctx.eval();
                    if usize::from(f.base_graph_count()) != idx {
                        ctx.violation(
                            "file|base-graph-count",
                            "File::base_graph_count differs from the file's index in the chain",
                            json!({"graph": describe, "file": h, "index": idx, "got": f.base_graph_count()}),
                        );
                    }
                    let bases: Vec<String> = f.iter_base_graph_ids().map(|i| i.to_string()).collect();
                    if bases != chain[..idx] {
                        ctx.violation(
                            "file|base-graph-ids",
                            "File::iter_base_graph_ids differs from the chain file",
                            json!({"graph": describe, "file": h, "want": &chain[..idx], "got": bases}),
                        );
                    }
                    file_sizes.push(f.num_commits());
                }
                Ok(Err(e)) => {
                    ctx.violation(
                        "open|git-written-file-rejected|chain",
                        "File::at() rejected a chain file written by git",
                        json!({"graph": describe, "file": h, "error": e.to_string()}),
                    );
                    return;
                }
                Err(pn) => {
                    ctx.panic_violation("gix_commitgraph::File::at", &pn, layout, describe);
                    return;
                }
            }
        }
    } else {
        file_sizes.push(graph.num_commits());
    }
    let file_of = |pos: u32| -> usize {
        let mut rem = pos;
        for (i, s) in file_sizes.iter().enumerate() {
            if rem < *s {
                return i;
            }
            rem -= s;
        }
        file_sizes.len()
    };

    ctx.eval();
    let total = graph.num_commits();
    if total as usize != in_graph {
        ctx.violation(
            &format!("count|num_commits|{layout}"),
            "Graph::num_commits differs from the number of commits git was asked to write",
            json!({"graph": describe, "want": in_graph, "got": total}),
        );
        return;
    }

    let odb = match gix_odb::at(dir.join("objects")) {
        Ok(o) => o,
        Err(e) => {
            ctx.inconclusive(&format!("gix_odb::at failed: {e}"));
            return;
        }
    };
    let mut buf = Vec::new();
    let mut gen_model: Vec<u32> = Vec::with_capacity(n);
    let mut roots = 0usize;
    let mut maxp_seen = 0usize;
    for i in 0..n {
        let nd = &nodes[i];
        let g = 1 + nd.parents.iter().map(|p| gen_model[*p]).max().unwrap_or(0);
        gen_model.push(g);
        // the commit object: ground truth
        let (want_parents, want_tree, want_time) = match odb.find_commit(&nd.id, &mut buf) {
            Ok(c) => (c.parents().collect::<Vec<_>>(), c.tree(), c.committer().time.seconds),
            Err(e) => {
                ctx.inconclusive(&format!("could not read commit object: {e}"));
                return;
            }
        };
        let model_parents: Vec<ObjectId> = nd.parents.iter().map(|p| nodes[*p].id).collect();
        if want_parents != model_parents || want_time != nd.time {
            ctx.inconclusive("decoded commit object disagrees with the generator's record");
            return;
        }
        if !(0..T34).contains(&want_time) {
            ctx.count("skipped_time_outside_format");
            continue;
        }
        let np = want_parents.len();
        let site = if np >= 3 { "extra-edges" } else { "inline" };
        ctx.eval();
        if i >= in_graph {
            // not part of the graph: lookups must not invent it
            ctx.count("checked_absent_commits");
            match guard(|| graph.commit_by_id(nd.id).map(|c| c.id().to_owned())) {
                Err(pn) => ctx.panic_violation("Graph::commit_by_id", &pn, layout, json!({"graph": describe, "id": nd.hex})),
                Ok(Some(other)) => ctx.violation(
                    &format!("lookup|found-absent-commit|{layout}"),
                    "commit_by_id returned a commit for an id git did not write into the graph",
                    json!({"graph": describe, "id": nd.hex, "returned_id": other.to_string()}),
                ),
                Ok(None) => {}
            }
            continue;
        }
        ctx.count("checked_commits");
        if np == 0 {
            roots += 1;
        }
        maxp_seen = maxp_seen.max(np);
        let res = guard(|| {
            let Some(c) = graph.commit_by_id(nd.id) else {
                return Err(("lookup|commit-not-found".to_string(), "commit_by_id() is None for a commit of the graph".to_string(), json!({})));
            };
            if c.id() != nd.id {
                return Err(("lookup|wrong-id".into(), "commit_by_id() returned a commit with another id".into(), json!({"got": c.id().to_string()})));
            }
            let Some(pos) = graph.lookup(nd.id) else {
                return Err(("lookup|lookup-none".into(), "lookup() is None although commit_by_id() found the commit".into(), json!({})));
            };
            if pos.0 >= total {
                return Err(("lookup|position-out-of-range".into(), "lookup() returned a position >= num_commits".into(), json!({"pos": pos.0})));
            }
            if graph.id_at(pos) != nd.id {
                return Err(("position|id_at-disagrees-with-lookup".into(), "id_at(lookup(id)) != id".into(), json!({"pos": pos.0, "got": graph.id_at(pos).to_string()})));
            }
            let at = graph.commit_at(pos);
            if at.id() != nd.id
                || at.root_tree_id() != c.root_tree_id()
                || at.generation() != c.generation()
                || at.committer_timestamp() != c.committer_timestamp()
            {
                return Err(("position|commit_at-disagrees-with-commit_by_id".into(), "commit_at(lookup(id)) differs from commit_by_id(id)".into(), json!({"pos": pos.0, "commit_at": format!("{at:?}"), "commit_by_id": format!("{c:?}")})));
            }
            // parents
            let mut got_parents = Vec::new();
            let mut parent_pos = Vec::new();
            for pp in c.iter_parents() {
                match pp {
                    Ok(pp) => {
                        if pp.0 >= total {
                            return Err((format!("parents|position-out-of-range|{site}"), "a parent position is >= num_commits".into(), json!({"parent_pos": pp.0, "total": total})));
                        }
                        got_parents.push(graph.id_at(pp).to_owned());
                        parent_pos.push(pp);
                    }
                    Err(e) => {
                        return Err((format!("parents|iter-error|{site}"), "iter_parents() failed on a git-written graph".into(), json!({"error": e.to_string()})));
                    }
                }
            }
            let p1 = c.parent1().ok().flatten().map(|p| p.0);
            if p1 != parent_pos.first().map(|p| p.0) {
                return Err(("parents|parent1-disagrees".into(), "parent1() differs from the first item of iter_parents()".into(), json!({"parent1": p1})));
            }
            if got_parents != want_parents {
                return Err((
                    format!("parents|mismatch|{site}"),
                    "parents read from the commit-graph differ from the commit object's parents".into(),
                    json!({"want": want_parents.iter().map(|p| p.to_string()).collect::<Vec<_>>(), "got": got_parents.iter().map(|p| p.to_string()).collect::<Vec<_>>()}),
                ));
            }
            if c.root_tree_id() != want_tree {
                return Err(("tree|mismatch".into(), "root tree differs from the commit object's tree".into(), json!({"want": want_tree.to_string(), "got": c.root_tree_id().to_string()})));
            }
            if c.committer_timestamp() != want_time as u64 {
                return Err((
                    format!("time|mismatch|class{}", time_class(want_time)),
                    "committer timestamp differs from the commit object's".into(),
                    json!({"want": want_time, "got": c.committer_timestamp()}),
                ));
            }
            if c.generation() != g {
                return Err(("generation|differs-from-topological-level".into(), "generation != 1 + max(generation(parents)) computed on the real DAG".into(), json!({"want": g, "got": c.generation()})));
            }
            let via_graph = 1 + parent_pos.iter().map(|pp| graph.commit_at(*pp).generation()).max().unwrap_or(0);
            if c.generation() != via_graph {
                return Err(("generation|inconsistent-with-graph-parents".into(), "generation != 1 + max(generation of the graph's parent entries)".into(), json!({"want": via_graph, "got": c.generation()})));
            }
            Ok((pos.0, parent_pos.iter().map(|p| p.0).collect::<Vec<u32>>()))
        });
        match res {
            Err(pn) => {
                ctx.panic_violation("Graph::commit_by_id+accessors", &pn, &format!("{layout}|{site}"), json!({"graph": describe, "id": nd.hex, "parents": np}));
            }
            Ok(Err((sig, what, mut w))) => {
                if let Some(o) = w.as_object_mut() {
                    o.insert("graph".into(), describe.clone());
                    o.insert("commit".into(), json!(nd.hex));
                    o.insert("commit_index".into(), json!(i));
                    o.insert("n_parents".into(), json!(np));
                }
                ctx.violation(&format!("{sig}|{layout}"), &what, w);
            }
            Ok(Ok((pos, ppos))) => {
                let my_file = file_of(pos);
                let mut mask = 0u8;
                for (k, pp) in ppos.iter().enumerate() {
                    if file_of(*pp) != my_file {
                        mask |= 1 << k.min(2);
                        ctx.count("cross_file_parent_edges");
                        if k >= 2 || (k == 1 && np >= 3) {
                            ctx.count("cross_file_extra_edges");
                        }
                    }
                }
                if np >= 3 {
                    ctx.count("octopus_commits");
                }
                if want_time >= (1 << 32) {
                    ctx.count("times_ge_2^32");
                }
                ctx.distinct((files_n, my_file, np.min(5), mask, time_class(want_time), p.genv1));
            }
        }
    }
    // every position is consistent with itself and the set of ids is exactly the expected one
    let expected: HashSet<ObjectId> = nodes[..in_graph].iter().map(|n| n.id).collect();
    let res = guard(|| {
        let mut seen = HashSet::new();
        for pos in 0..total {
            let pos = gix_commitgraph::Position(pos);
            let id = graph.id_at(pos).to_owned();
            if graph.lookup(id) != Some(pos) {
                return Err(("position|lookup-disagrees-with-id_at", json!({"pos": pos.0, "id": id.to_string(), "lookup": graph.lookup(id).map(|p| p.0)})));
            }
            if graph.commit_at(pos).id() != id {
                return Err(("position|commit_at-id-disagrees-with-id_at", json!({"pos": pos.0, "id": id.to_string()})));
            }
            if !expected.contains(&id) {
                return Err(("position|unexpected-id", json!({"pos": pos.0, "id": id.to_string()})));
            }
            seen.insert(id);
        }
        if seen.len() != expected.len() {
            return Err(("position|duplicate-ids", json!({"distinct": seen.len(), "want": expected.len()})));
        }
        let ni = graph.iter_ids().count();
        let nc = graph.iter_commits().count();
        if ni != total as usize || nc != total as usize {
            return Err(("iter|count", json!({"iter_ids": ni, "iter_commits": nc, "num_commits": total})));
        }
        let from_iter: HashSet<ObjectId> = graph.iter_commits().map(|c| c.id().to_owned()).collect();
        if from_iter != expected {
            return Err(("iter|id-set", json!({"distinct": from_iter.len()})));
        }
        Ok(())
    });
    ctx.add_evals(u64::from(total));
    match res {
        Err(pn) => ctx.panic_violation("Graph position accessors", &pn, layout, describe.clone()),
        Ok(Err((sig, mut w))) => {
            if let Some(o) = w.as_object_mut() {
                o.insert("graph".into(), describe.clone());
            }
            ctx.violation(&format!("{sig}|{layout}"), "positional accessors of the graph disagree with each other or with the expected id set", w);
        }
        Ok(Ok(())) => {}
    }
    ctx.count_n("roots_checked", roots as u64);
    if ctx.want_sample() {
        let mut s = describe;
        if let Some(o) = s.as_object_mut() {
            o.insert("file_sizes".into(), json!(file_sizes));
            o.insert("roots".into(), json!(roots));
            o.insert("max_parents_seen".into(), json!(maxp_seen));
            o.insert("tip".into(), json!(nodes[in_graph - 1].hex));
        }
        ctx.sample(s);
    }
}

pub fn run(ctx: &mut Ctx) {
    ctx.rule(
        "case = one repogen history (1..600 commits, octopus merges up to 8 parents, many roots, plus up to 12 commits with \
         boundary committer times in [0,2^34)) and one commit-graph written by git 2.39.5 (single file, or a split chain built \
         by 1..4 incremental `--stdin-commits --split[=no-merge|replace]` writes, optional bloom filters / generation v1); every \
         commit is compared field by field with its commit object. distinct = (files in chain, file index of the commit, \
         #parents (cap 5), which parent slots point into another chain file, time class <2^31/<2^32/>=2^32, generation version)",
    );
    ctx.assume("committer times >= 2^34 or negative do not fit the CDAT format and are not generated");
    ctx.assume("generation() is the topological level stored in CDAT (git's GDA2/GDO2 corrected dates are not exposed by gitoxide)");
    let n = ctx.n(20, 1000);
    ctx.cases("graph", n, scenario);
}
