//! C49 Status agrees with `git status`.
//!
//! One case = one scratch repository built with git (index with real stat data), then mutated in the
//! worktree (content/mode/type changes, deletions, untracked and ignored files and directories,
//! racy same-size edits with restored mtime, index-file mtime moved before/onto/after the entries,
//! racily-smudged entries, intent-to-add). A byte-for-byte twin (same mtimes, modes, symlinks, `.git`)
//! is made before anything looks at the repository.
//!
//! Oracle: `git status --porcelain=v2 -z --no-renames` on the twin (git has to look at contents there,
//! inodes/ctimes differ) must equal what `gix::Repository::status()` reports for the original; the
//! comparison is only made if git, run afterwards on the original *without writing the index*
//! (GIT_OPTIONAL_LOCKS=0), reports the same as on the twin — otherwise the scenario is one where stat
//! caching legitimately hides a change and it is counted, not judged.
use crate::fw::{self, git, guard, show, Ctx, Rng};
use bstr::ByteSlice;
use serde_json::json;
use std::collections::{BTreeMap, BTreeSet};
use std::os::unix::fs::{MetadataExt, PermissionsExt};
use std::path::{Path, PathBuf};

pub fn child(_mode: &str) {}

// ------------------------------------------------------------------ fs helpers

fn set_mtime(p: &Path, secs: i64, nsecs: i64) -> Result<(), String> {
    use std::os::unix::ffi::OsStrExt;
    let c = std::ffi::CString::new(p.as_os_str().as_bytes()).map_err(|e| e.to_string())?;
    let times = [
        libc::timespec { tv_sec: secs as libc::time_t, tv_nsec: nsecs as _ },
        libc::timespec { tv_sec: secs as libc::time_t, tv_nsec: nsecs as _ },
    ];
    let rc = unsafe { libc::utimensat(libc::AT_FDCWD, c.as_ptr(), times.as_ptr(), libc::AT_SYMLINK_NOFOLLOW) };
    if rc != 0 {
        return Err(format!("utimensat {}: {}", p.display(), std::io::Error::last_os_error()));
    }
    Ok(())
}

fn get_mtime(p: &Path) -> Result<(i64, i64), String> {
    let m = std::fs::symlink_metadata(p).map_err(|e| format!("lstat {}: {e}", p.display()))?;
    Ok((m.mtime(), m.mtime_nsec()))
}

fn write_file(p: &Path, data: &[u8]) -> Result<(), String> {
    if let Some(d) = p.parent() {
        std::fs::create_dir_all(d).map_err(|e| format!("mkdir {}: {e}", d.display()))?;
    }
    std::fs::write(p, data).map_err(|e| format!("write {}: {e}", p.display()))
}

fn chmod(p: &Path, mode: u32) -> Result<(), String> {
    std::fs::set_permissions(p, std::fs::Permissions::from_mode(mode)).map_err(|e| format!("chmod {}: {e}", p.display()))
}

fn remove_any(p: &Path) -> Result<(), String> {
    match std::fs::symlink_metadata(p) {
        Err(_) => Ok(()),
        Ok(m) if m.is_dir() => std::fs::remove_dir_all(p).map_err(|e| e.to_string()),
        Ok(_) => std::fs::remove_file(p).map_err(|e| e.to_string()),
    }
}

/// Recursive copy that keeps symlinks, permission bits and mtimes (files, symlinks and directories).
fn copy_tree(src: &Path, dst: &Path) -> Result<(), String> {
    let m = std::fs::symlink_metadata(src).map_err(|e| format!("lstat {}: {e}", src.display()))?;
    let ft = m.file_type();
    if ft.is_symlink() {
        let t = std::fs::read_link(src).map_err(|e| e.to_string())?;
        std::os::unix::fs::symlink(&t, dst).map_err(|e| format!("symlink {}: {e}", dst.display()))?;
    } else if ft.is_dir() {
        std::fs::create_dir(dst).map_err(|e| format!("mkdir {}: {e}", dst.display()))?;
        let mut names: Vec<_> = std::fs::read_dir(src).map_err(|e| e.to_string())?.filter_map(|e| e.ok()).map(|e| e.file_name()).collect();
        names.sort();
        for n in names {
            copy_tree(&src.join(&n), &dst.join(&n))?;
        }
        chmod(dst, m.mode() & 0o7777)?;
    } else {
        std::fs::copy(src, dst).map_err(|e| format!("copy {}: {e}", src.display()))?;
        chmod(dst, m.mode() & 0o7777)?;
    }
    set_mtime(dst, m.mtime(), m.mtime_nsec())
}

/// Store a loose object without going through git or gitoxide.
fn write_loose(git_dir: &Path, kind: &str, data: &[u8]) -> Result<String, String> {
    use std::io::Write;
    let id = fw::hex(&fw::git_oid(kind, data));
    let p = git_dir.join("objects").join(&id[..2]).join(&id[2..]);
    let mut e = flate2::write::ZlibEncoder::new(Vec::new(), flate2::Compression::fast());
    e.write_all(format!("{kind} {}\0", data.len()).as_bytes()).map_err(|e| e.to_string())?;
    e.write_all(data).map_err(|e| e.to_string())?;
    write_file(&p, &e.finish().map_err(|e| e.to_string())?)?;
    Ok(id)
}

// ------------------------------------------------------------------ scenario

const DIRS: &[&str] = &["", "", "", "a", "a", "b", "a/b", "src", "src/x", "d.o", "build", "gen", "a/gen", "x y"];
const FILES: &[&str] = &["f", "g.txt", "h.o", "i.tmp", "k", "keep.o", "Makefile", "m.log", "n n", "z", "g", "f.txt", "lib.rs", "\u{fc}"];
const ROOT_IGNORES: &[&str] = &[
    "*.o", "*.tmp", "build/", "/k", "!keep.o", "a/b/", "src/*.txt", "**/gen", "d.o/", "*.log", "gen/", "/a/f", "x*", "newdir/", "nd*/", "*.txt", "!g.txt", "z", "# comment", "/src/",
    "a/*", "!a/g.txt", "deep/", "**/deep/", "only-ignored/*", "m*/",
];
const SUB_IGNORES: &[&str] = &["*.txt", "!g.txt", "f", "/k", "x/", "*", "!*.o", "gen"];

#[derive(Clone, Copy, PartialEq, Eq, Hash, Debug, PartialOrd, Ord)]
enum Mut {
    ModifyDiffSize,
    ModifySameSize,
    ModifySameSizeRestoreMtime,
    Touch,
    RewriteSame,
    RewriteSameRestoreMtime,
    Chmod,
    Delete,
    FileToDir,
    FileToSymlink,
    SymlinkRetarget,
    SymlinkToFile,
    Truncate,
    TruncateRestoreMtime,
    DirToFile,
    DeleteDir,
}

#[derive(Clone, Copy, PartialEq, Eq, Hash, Debug, PartialOrd, Ord)]
enum Add {
    FileInRoot,
    FileInTrackedDir,
    NewDirWithFiles,
    NestedNewDirs,
    EmptyDir,
    DirOnlyIgnored,
    DirMixedIgnored,
    IgnoredNameInTrackedDir,
    InsideIgnoredDir,
    UntrackedSymlink,
    UntrackedSymlinkToDir,
    GitignoreInSubdir,
    DeepIgnoredDir,
    UntrackedWhereAllTrackedDeleted,
}

#[derive(Clone, Copy, PartialEq, Eq, Hash, Debug)]
enum IndexTime {
    Untouched,
    BeforeAllEntries,
    EqualToAnEntry,
    Future,
}

#[derive(Clone, Copy, PartialEq, Eq, Hash, Debug)]
enum Untracked {
    No,
    Normal,
    All,
}
impl Untracked {
    fn as_str(&self) -> &'static str {
        match self {
            Untracked::No => "no",
            Untracked::Normal => "normal",
            Untracked::All => "all",
        }
    }
}

#[derive(Clone, Copy, PartialEq, Eq, Hash, Debug)]
enum Ignored {
    No,
    Traditional,
    Matching,
}
impl Ignored {
    fn as_str(&self) -> &'static str {
        match self {
            Ignored::No => "no",
            Ignored::Traditional => "traditional",
            Ignored::Matching => "matching",
        }
    }
}

struct Scenario {
    dir: PathBuf,
    tracked: Vec<String>,
    symlinks: BTreeSet<String>,
    /// what was done to which path (path or directory prefix) for witnesses and signatures
    log: Vec<(String, String)>,
    muts: BTreeSet<Mut>,
    adds: BTreeSet<Add>,
    ita: Vec<String>,
    index_time: IndexTime,
    trust_ctime: bool,
    smudge_step: bool,
    gitignore_root: Vec<String>,
    gitignore_tracked: bool,
    exclude: Vec<String>,
    unborn: bool,
}

fn text(r: &mut Rng, len: usize) -> Vec<u8> {
    let mut v = r.bytes_from(len, b"abcdefghij klmnop\n");
    if let Some(l) = v.last_mut() {
        *l = b'\n';
    }
    v
}

fn gen_paths(r: &mut Rng, n: usize) -> Vec<String> {
    let mut set: BTreeSet<String> = BTreeSet::new();
    let mut tries = 0;
    while set.len() < n && tries < n * 20 {
        tries += 1;
        let d = *r.pick(DIRS);
        let f = *r.pick(FILES);
        let p = if d.is_empty() { f.to_string() } else { format!("{d}/{f}") };
        // a file must not be a directory of another path, nor the other way round
        let conflict = set.iter().any(|q| q.starts_with(&format!("{p}/")) || p.starts_with(&format!("{q}/")));
        if !conflict {
            set.insert(p);
        }
    }
    set.into_iter().collect()
}

impl Scenario {
    fn p(&self, rel: &str) -> PathBuf {
        self.dir.join(rel)
    }
    fn note(&mut self, path: &str, what: &str) {
        self.log.push((path.to_string(), what.to_string()));
    }

    fn build(ctx: &mut Ctx, r: &mut Rng, dir: &Path, max_files: usize) -> Result<Scenario, String> {
        let trust_ctime = !r.chance(1, 3);
        let mut s = Scenario {
            dir: dir.to_path_buf(),
            tracked: Vec::new(),
            symlinks: BTreeSet::new(),
            log: Vec::new(),
            muts: BTreeSet::new(),
            adds: BTreeSet::new(),
            ita: Vec::new(),
            index_time: IndexTime::Untouched,
            trust_ctime,
            smudge_step: false,
            gitignore_root: Vec::new(),
            gitignore_tracked: false,
            exclude: Vec::new(),
            unborn: r.chance(1, 30),
        };
        for d in ["objects/info", "objects/pack", "refs/heads", "refs/tags", "info"] {
            std::fs::create_dir_all(dir.join(".git").join(d)).map_err(|e| e.to_string())?;
        }
        write_file(&dir.join(".git/HEAD"), b"ref: refs/heads/main\n")?;
        let mut conf = String::from("[core]\n\trepositoryformatversion = 0\n\tfilemode = true\n\tbare = false\n");
        if !trust_ctime {
            conf.push_str("\ttrustctime = false\n");
        }
        conf.push_str("[gc]\n\tauto = 0\n[maintenance]\n\tauto = false\n");
        write_file(&dir.join(".git/config"), conf.as_bytes())?;

        // ignore rules
        let n_ign = r.usize(5);
        for _ in 0..n_ign {
            let p = r.pick(ROOT_IGNORES).to_string();
            if !s.gitignore_root.contains(&p) {
                s.gitignore_root.push(p);
            }
        }
        s.gitignore_tracked = r.bool();
        if !s.gitignore_root.is_empty() && s.gitignore_tracked {
            write_file(&s.p(".gitignore"), (s.gitignore_root.join("\n") + "\n").as_bytes())?;
        }
        if r.chance(1, 4) {
            s.exclude.push(r.pick(ROOT_IGNORES).to_string());
            write_file(&dir.join(".git/info/exclude"), (s.exclude.join("\n") + "\n").as_bytes())?;
        }

        // tracked files
        let n = 3 + r.usize(max_files.saturating_sub(2));
        let paths = gen_paths(r, n);
        for p in &paths {
            if r.chance(1, 10) {
                let target = *r.pick(&["f", "../k", "nonexistent", "a", ".", "g.txt"]);
                if let Some(d) = s.p(p).parent() {
                    std::fs::create_dir_all(d).map_err(|e| e.to_string())?;
                }
                std::os::unix::fs::symlink(target, s.p(p)).map_err(|e| format!("symlink {p}: {e}"))?;
                s.symlinks.insert(p.clone());
            } else {
                let len = *r.pick(&[0usize, 1, 5, 20, 20, 60, 200]);
                write_file(&s.p(p), &text(r, len))?;
                if r.chance(1, 6) {
                    chmod(&s.p(p), 0o755)?;
                }
            }
        }
        git::ok(dir, &["add", "-A"])?;
        ctx.count("git_add_calls");
        // bookkeeping only: which paths did git put into the index (ignored ones are not added)
        s.tracked = IndexFacts::load(dir).entries.keys().cloned().collect();
        if s.tracked.is_empty() {
            return Err("index unreadable or empty after git add".into());
        }
        if !s.unborn {
            // HEAD = a hand-written commit of the empty tree (no process needed; HEAD-vs-index is not compared)
            let tree = write_loose(&dir.join(".git"), "tree", b"")?;
            let commit = write_loose(
                &dir.join(".git"),
                "commit",
                format!("tree {tree}\nauthor A <a@example.com> 1700000000 +0000\ncommitter A <a@example.com> 1700000000 +0000\n\ninit\n").as_bytes(),
            )?;
            write_file(&dir.join(".git/refs/heads/main"), format!("{commit}\n").as_bytes())?;
        }
        if !s.gitignore_root.is_empty() && !s.gitignore_tracked {
            write_file(&s.p(".gitignore"), (s.gitignore_root.join("\n") + "\n").as_bytes())?;
        }

        // intent-to-add
        if r.chance(1, 4) {
            let k = 1 + r.usize(2);
            for i in 0..k {
                let p = format!("{}ita{}", *r.pick(&["", "a/", "new/"]), i);
                write_file(&s.p(&p), &text(r, 10))?;
                s.ita.push(p);
            }
            let mut args = vec!["add".to_string(), "-N".into(), "-f".into(), "--".into()];
            args.extend(s.ita.iter().cloned());
            git::ok(dir, &args)?;
            ctx.count("git_add_calls");
            if r.chance(1, 3) {
                let p = s.ita[0].clone();
                std::fs::remove_file(s.p(&p)).map_err(|e| e.to_string())?;
                s.note(&p, "intent-to-add then deleted");
            } else {
                let p = s.ita[0].clone();
                s.note(&p, "intent-to-add");
            }
        }

        // mutations of tracked entries (two rounds with an optional index rewrite between them)
        s.smudge_step = r.chance(1, 4);
        let rounds = if s.smudge_step { 2 } else { 1 };
        for round in 0..rounds {
            let tracked = s.tracked.clone();
            for p in &tracked {
                if p == ".gitignore" || !r.chance(1, 3) {
                    continue;
                }
                s.mutate(r, p)?;
            }
            if round == 0 && s.smudge_step {
                // an unrelated index write: git smudges racily-clean-but-modified entries (size := 0)
                write_file(&s.p("zz-smudge"), b"smudge\n")?;
                git::ok(dir, &["update-index", "--add", "zz-smudge"])?;
                ctx.count("git_update_index_calls");
                s.tracked.push("zz-smudge".into());
            }
        }

        // untracked and ignored additions
        let n_add = r.usize(6);
        for _ in 0..n_add {
            // an addition that is impossible after the mutations (parent became a file, ...) is simply skipped
            if s.add_untracked(r).is_err() {
                ctx.count("additions_skipped");
            }
        }

        // index timestamp manipulation
        s.index_time = *r.pick(&[IndexTime::Untouched, IndexTime::Untouched, IndexTime::BeforeAllEntries, IndexTime::EqualToAnEntry, IndexTime::Future]);
        let idx = dir.join(".git/index");
        let mut mt: Vec<(i64, i64)> = Vec::new();
        for p in &s.tracked {
            if let Ok(t) = get_mtime(&s.p(p)) {
                mt.push(t);
            }
        }
        match s.index_time {
            IndexTime::Untouched => {}
            IndexTime::BeforeAllEntries => {
                if let Some(min) = mt.iter().min() {
                    set_mtime(&idx, min.0 - 1, 0)?;
                }
            }
            IndexTime::EqualToAnEntry => {
                if !mt.is_empty() {
                    let t = *r.pick(&mt);
                    set_mtime(&idx, t.0, t.1)?;
                }
            }
            IndexTime::Future => {
                let now = get_mtime(&idx)?;
                set_mtime(&idx, now.0 + 3 + r.range(0, 100), 0)?;
            }
        }
        Ok(s)
    }

    fn mutate(&mut self, r: &mut Rng, p: &str) -> Result<(), String> {
        let full = self.p(p);
        let meta = match std::fs::symlink_metadata(&full) {
            Ok(m) => m,
            Err(_) => return Ok(()), // already gone (e.g. its directory was replaced)
        };
        if meta.is_dir() {
            return Ok(());
        }
        let is_link = meta.file_type().is_symlink();
        let m = if is_link {
            *r.pick(&[Mut::SymlinkRetarget, Mut::SymlinkToFile, Mut::Delete, Mut::Touch])
        } else {
            *r.pick(&[
                Mut::ModifyDiffSize,
                Mut::ModifySameSize,
                Mut::ModifySameSizeRestoreMtime,
                Mut::ModifySameSizeRestoreMtime,
                Mut::Touch,
                Mut::RewriteSame,
                Mut::RewriteSameRestoreMtime,
                Mut::Chmod,
                Mut::Delete,
                Mut::FileToDir,
                Mut::FileToSymlink,
                Mut::Truncate,
                Mut::TruncateRestoreMtime,
                Mut::DirToFile,
                Mut::DeleteDir,
            ])
        };
        // replacing whole directories makes gix fail outright (ENOTDIR) or wipes most of the scenario: keep it rare
        let m = if matches!(m, Mut::DirToFile | Mut::DeleteDir) && !r.chance(1, 5) { Mut::ModifyDiffSize } else { m };
        let (ms, mn) = (meta.mtime(), meta.mtime_nsec());
        let old = if is_link { Vec::new() } else { std::fs::read(&full).map_err(|e| e.to_string())? };
        let same_size_other = |r: &mut Rng, old: &[u8]| -> Vec<u8> {
            let mut v = old.to_vec();
            if v.is_empty() {
                return v;
            }
            let i = r.usize(v.len());
            v[i] = if v[i] == b'X' { b'Y' } else { b'X' };
            v
        };
        match m {
            Mut::ModifyDiffSize => {
                let mut v = old.clone();
                v.extend_from_slice(b"more\n");
                std::fs::write(&full, v).map_err(|e| e.to_string())?;
            }
            Mut::ModifySameSize => std::fs::write(&full, same_size_other(r, &old)).map_err(|e| e.to_string())?,
            Mut::ModifySameSizeRestoreMtime => {
                std::fs::write(&full, same_size_other(r, &old)).map_err(|e| e.to_string())?;
                set_mtime(&full, ms, mn)?;
            }
            Mut::Touch => {
                let d = *r.pick(&[-100i64, -1, 1, 5, 1000]);
                set_mtime(&full, ms + d, mn)?;
            }
            Mut::RewriteSame => std::fs::write(&full, &old).map_err(|e| e.to_string())?,
            Mut::RewriteSameRestoreMtime => {
                std::fs::write(&full, &old).map_err(|e| e.to_string())?;
                set_mtime(&full, ms, mn)?;
            }
            Mut::Chmod => {
                let x = meta.mode() & 0o100 != 0;
                chmod(&full, if x { 0o644 } else { 0o755 })?;
            }
            Mut::Delete => std::fs::remove_file(&full).map_err(|e| e.to_string())?,
            Mut::FileToDir => {
                std::fs::remove_file(&full).map_err(|e| e.to_string())?;
                std::fs::create_dir(&full).map_err(|e| e.to_string())?;
                match r.below(4) {
                    0 => {} // empty directory
                    1 => write_file(&full.join("inner.o"), b"o\n")?,
                    2 => {
                        write_file(&full.join("inner"), b"i\n")?;
                        write_file(&full.join("deep/er"), b"d\n")?;
                    }
                    _ => write_file(&full.join("inner"), b"i\n")?,
                }
            }
            Mut::FileToSymlink => {
                std::fs::remove_file(&full).map_err(|e| e.to_string())?;
                std::os::unix::fs::symlink(*r.pick(&["f", "nonexistent", "."]), &full).map_err(|e| e.to_string())?;
            }
            Mut::SymlinkRetarget => {
                let t = std::fs::read_link(&full).map_err(|e| e.to_string())?;
                std::fs::remove_file(&full).map_err(|e| e.to_string())?;
                // same length target or a different one
                let nt = if r.bool() {
                    let mut b = t.to_string_lossy().to_string().into_bytes();
                    if let Some(l) = b.last_mut() {
                        *l = if *l == b'q' { b'r' } else { b'q' };
                    }
                    String::from_utf8_lossy(&b).to_string()
                } else {
                    "elsewhere/else".to_string()
                };
                std::os::unix::fs::symlink(nt, &full).map_err(|e| e.to_string())?;
                if r.bool() {
                    set_mtime(&full, ms, mn)?;
                }
            }
            Mut::SymlinkToFile => {
                let t = std::fs::read_link(&full).map_err(|e| e.to_string())?;
                std::fs::remove_file(&full).map_err(|e| e.to_string())?;
                // a file whose content is the link target: same blob, different type
                std::fs::write(&full, t.to_string_lossy().as_bytes()).map_err(|e| e.to_string())?;
            }
            Mut::Truncate => std::fs::write(&full, b"").map_err(|e| e.to_string())?,
            Mut::TruncateRestoreMtime => {
                std::fs::write(&full, b"").map_err(|e| e.to_string())?;
                set_mtime(&full, ms, mn)?;
            }
            Mut::DirToFile | Mut::DeleteDir => {
                // operate on the top-level directory of the path, if any
                let Some((top, _)) = p.split_once('/') else { return Ok(()) };
                let top_full = self.p(top);
                std::fs::remove_dir_all(&top_full).map_err(|e| e.to_string())?;
                if m == Mut::DirToFile {
                    std::fs::write(&top_full, b"now a file\n").map_err(|e| e.to_string())?;
                }
                self.muts.insert(m);
                self.note(top, &format!("{m:?}"));
                return Ok(());
            }
        }
        self.muts.insert(m);
        self.note(p, &format!("{m:?}"));
        Ok(())
    }

    fn add_untracked(&mut self, r: &mut Rng) -> Result<(), String> {
        let a = *r.pick(&[
            Add::FileInRoot,
            Add::FileInTrackedDir,
            Add::NewDirWithFiles,
            Add::NestedNewDirs,
            Add::EmptyDir,
            Add::DirOnlyIgnored,
            Add::DirMixedIgnored,
            Add::IgnoredNameInTrackedDir,
            Add::InsideIgnoredDir,
            Add::UntrackedSymlink,
            Add::UntrackedSymlinkToDir,
            Add::GitignoreInSubdir,
            Add::DeepIgnoredDir,
            Add::UntrackedWhereAllTrackedDeleted,
        ]);
        let tracked_dirs: Vec<String> = self
            .tracked
            .iter()
            .filter_map(|p| p.rsplit_once('/').map(|(d, _)| d.to_string()))
            .filter(|d| self.p(d).is_dir())
            .collect::<BTreeSet<_>>()
            .into_iter()
            .collect();
        let k = r.below(1000);
        let free = |s: &Scenario, p: &str| std::fs::symlink_metadata(s.p(p)).is_err();
        let path = match a {
            Add::FileInRoot => {
                let p = format!("{}{k}", *r.pick(&["u", "x", "new.o", "u.txt", "k"]));
                if free(self, &p) {
                    write_file(&self.p(&p), b"untracked\n")?;
                }
                p
            }
            Add::FileInTrackedDir | Add::IgnoredNameInTrackedDir => {
                if tracked_dirs.is_empty() {
                    return Ok(());
                }
                let d = r.pick(&tracked_dirs).clone();
                let name = if a == Add::FileInTrackedDir { format!("u{k}") } else { (*r.pick(&["t.o", "t.tmp", "t.log", "t.txt", "gen", "k"])).to_string() };
                let p = format!("{d}/{name}");
                if free(self, &p) {
                    write_file(&self.p(&p), b"untracked\n")?;
                }
                p
            }
            Add::NewDirWithFiles => {
                let d = format!("{}{k}", *r.pick(&["newdir", "nd", "a/nd", "src/nd"]));
                if free(self, &d) {
                    write_file(&self.p(&format!("{d}/one")), b"1\n")?;
                    if r.bool() {
                        write_file(&self.p(&format!("{d}/two.txt")), b"2\n")?;
                    }
                }
                d
            }
            Add::NestedNewDirs => {
                let d = format!("nest{k}");
                write_file(&self.p(&format!("{d}/l1/l2/file")), b"deep\n")?;
                if r.bool() {
                    write_file(&self.p(&format!("{d}/l1/sib.o")), b"o\n")?;
                }
                if r.bool() {
                    std::fs::create_dir_all(self.p(&format!("{d}/l1/empty"))).map_err(|e| e.to_string())?;
                }
                d
            }
            Add::EmptyDir => {
                let d = format!("{}{k}", *r.pick(&["empty", "a/empty", "build/empty"]));
                if free(self, &d) {
                    let _ = std::fs::create_dir_all(self.p(&d));
                    if r.bool() {
                        let _ = std::fs::create_dir_all(self.p(&format!("{d}/sub/sub2")));
                    }
                }
                d
            }
            Add::DirOnlyIgnored => {
                let d = format!("only-ignored{k}");
                write_file(&self.p(&format!("{d}/a.o")), b"o\n")?;
                write_file(&self.p(&format!("{d}/b.tmp")), b"t\n")?;
                if r.bool() {
                    write_file(&self.p(&format!("{d}/sub/c.o")), b"o\n")?;
                }
                d
            }
            Add::DirMixedIgnored => {
                let d = format!("mixed{k}");
                write_file(&self.p(&format!("{d}/a.o")), b"o\n")?;
                write_file(&self.p(&format!("{d}/plain")), b"p\n")?;
                if r.bool() {
                    write_file(&self.p(&format!("{d}/sub/c.log")), b"l\n")?;
                    write_file(&self.p(&format!("{d}/sub/keep.o")), b"k\n")?;
                }
                d
            }
            Add::InsideIgnoredDir => {
                let d = (*r.pick(&["build", "gen", "a/gen", "d.o", "deep"])).to_string();
                if std::fs::symlink_metadata(self.p(&d)).map(|m| m.is_dir()).unwrap_or(true) {
                    let _ = write_file(&self.p(&format!("{d}/out{k}/x")), b"x\n");
                    let _ = write_file(&self.p(&format!("{d}/y{k}.o")), b"y\n");
                }
                d
            }
            Add::UntrackedSymlink => {
                let p = format!("link{k}");
                let _ = std::os::unix::fs::symlink("nonexistent", self.p(&p));
                p
            }
            Add::UntrackedSymlinkToDir => {
                let p = format!("{}{k}", *r.pick(&["build", "dirlink", "gen"]));
                let _ = std::fs::create_dir_all(self.p("a"));
                let _ = std::os::unix::fs::symlink("a", self.p(&p));
                p
            }
            Add::GitignoreInSubdir => {
                let d = if tracked_dirs.is_empty() || r.bool() { format!("igd{k}") } else { r.pick(&tracked_dirs).clone() };
                let mut pats = Vec::new();
                for _ in 0..1 + r.usize(2) {
                    pats.push(r.pick(SUB_IGNORES).to_string());
                }
                let gi = format!("{d}/.gitignore");
                if free(self, &gi) {
                    write_file(&self.p(&gi), (pats.join("\n") + "\n").as_bytes())?;
                    let _ = write_file(&self.p(&format!("{d}/s.txt")), b"s\n");
                    let _ = write_file(&self.p(&format!("{d}/g.txt")), b"g\n");
                    let _ = write_file(&self.p(&format!("{d}/x/in")), b"i\n");
                    self.note(&gi, &format!("patterns {pats:?}"));
                }
                d
            }
            Add::UntrackedWhereAllTrackedDeleted => {
                if tracked_dirs.is_empty() {
                    return Ok(());
                }
                let d = r.pick(&tracked_dirs).clone();
                let pre = format!("{d}/");
                for t in self.tracked.clone() {
                    if t.starts_with(&pre) {
                        let _ = remove_any(&self.p(&t));
                    }
                }
                let _ = write_file(&self.p(&format!("{d}/fresh{k}")), b"fresh\n");
                if r.bool() {
                    let _ = write_file(&self.p(&format!("{d}/sub{k}/fresh")), b"fresh\n");
                }
                d
            }
            Add::DeepIgnoredDir => {
                let d = format!("top{k}");
                write_file(&self.p(&format!("{d}/deep/file")), b"f\n")?;
                write_file(&self.p(&format!("{d}/gen/file.o")), b"f\n")?;
                if r.bool() {
                    write_file(&self.p(&format!("{d}/visible")), b"v\n")?;
                }
                d
            }
        };
        self.adds.insert(a);
        self.note(&path, &format!("{a:?}"));
        Ok(())
    }

    /// what the scenario did to the path (longest matching logged prefix), for signatures
    fn class_of(&self, path: &str) -> String {
        let path = path.trim_end_matches('/');
        let mut best: Option<&(String, String)> = None;
        for e in &self.log {
            let hit = path == e.0 || path.starts_with(&format!("{}/", e.0)) || e.0.starts_with(&format!("{path}/"));
            if hit && best.map_or(true, |b| e.0.len() >= b.0.len()) {
                best = Some(e);
            }
        }
        match best {
            Some(e) => e.1.split(' ').next().unwrap_or("").to_string(),
            None => {
                if self.tracked.iter().any(|t| t == path) {
                    "untouched-tracked".into()
                } else {
                    "other".into()
                }
            }
        }
    }
}

// ------------------------------------------------------------------ the two sides

type Lines = BTreeSet<String>;

fn git_status(ctx: &mut Ctx, dir: &Path, u: Option<Untracked>, ig: Ignored, optional_locks_off: bool) -> Result<Lines, String> {
    let mut args: Vec<String> = vec!["status".into(), "--porcelain=v2".into(), "-z".into(), "--no-renames".into()];
    if let Some(u) = u {
        args.push(format!("--untracked-files={}", u.as_str()));
    }
    if ig != Ignored::No {
        args.push(format!("--ignored={}", ig.as_str()));
    }
    let env: Vec<(&str, &str)> = if optional_locks_off { vec![("GIT_OPTIONAL_LOCKS", "0")] } else { vec![] };
    let o = git::run_env(dir, &args, &env).map_err(|e| e.to_string())?;
    ctx.count("git_status_calls");
    if !o.ok {
        return Err(format!("git status failed: {}", o.err_text()));
    }
    let mut out = Lines::new();
    for rec in o.stdout.split(|b| *b == 0).filter(|r| !r.is_empty()) {
        let rec = String::from_utf8_lossy(rec).to_string();
        match rec.as_bytes()[0] {
            b'1' => {
                let f: Vec<&str> = rec.splitn(9, ' ').collect();
                if f.len() != 9 {
                    return Err(format!("porcelain v2 record {rec:?}"));
                }
                let y = f[1].as_bytes()[1] as char;
                if y != '.' {
                    out.insert(format!("{y} {}", f[8]));
                }
            }
            b'?' | b'!' => {
                out.insert(rec);
            }
            b'#' => {}
            _ => return Err(format!("unexpected porcelain v2 record {rec:?}")),
        }
    }
    Ok(out)
}

struct GixOut {
    lines: Lines,
    racy_clean: usize,
    worktree_files_read: usize,
    entries_to_update: usize,
}

fn gix_status(dir: &Path, u: Option<Untracked>, ig: Ignored) -> Result<GixOut, String> {
    use gix::dir::walk::EmissionMode;
    use gix::status::index_worktree::iter::Item;
    use gix_status::index_as_worktree::{Change, EntryStatus};
    let repo = gix::open_opts(dir, gix::open::Options::isolated()).map_err(|e| format!("gix::open: {e}"))?;
    let mut platform = repo.status(gix::progress::Discard).map_err(|e| format!("status(): {e:?}"))?;
    if let Some(u) = u {
        platform = platform.untracked_files(match u {
            Untracked::No => gix::status::UntrackedFiles::None,
            Untracked::Normal => gix::status::UntrackedFiles::Collapsed,
            Untracked::All => gix::status::UntrackedFiles::Files,
        });
    }
    platform = platform
        .index_worktree_rewrites(None)
        .index_worktree_submodules(None)
        .dirwalk_options(|o| {
            o.emit_ignored(match ig {
                Ignored::No => None,
                Ignored::Traditional => Some(EmissionMode::CollapseDirectory),
                Ignored::Matching => Some(EmissionMode::Matching),
            })
            // git lists ignored entries that sit inside a collapsed untracked directory
            .emit_collapsed((ig != Ignored::No).then_some(gix::dir::walk::CollapsedEntriesEmissionMode::OnStatusMismatch))
        })
        .index_worktree_options_mut(|o| o.thread_limit = Some(2));
    let mut iter = platform.into_index_worktree_iter(Vec::new()).map_err(|e| format!("into_index_worktree_iter: {e:?}"))?;
    let mut lines = Lines::new();
    for item in iter.by_ref() {
        let item = item.map_err(|e| format!("status item: {e:?}"))?;
        match item {
            Item::Modification { rela_path, status, .. } => {
                let y = match status {
                    EntryStatus::Conflict(_) => 'U',
                    EntryStatus::Change(Change::Removed) => 'D',
                    EntryStatus::Change(Change::Type) => 'T',
                    EntryStatus::Change(Change::Modification { .. }) => 'M',
                    EntryStatus::Change(Change::SubmoduleModification(_)) => 'S',
                    EntryStatus::NeedsUpdate(_) => continue,
                    EntryStatus::IntentToAdd => 'A',
                };
                lines.insert(format!("{y} {}", rela_path.to_str_lossy()));
            }
            Item::DirectoryContents { entry, .. } => {
                let slash = if matches!(entry.disk_kind, Some(gix::dir::entry::Kind::Directory | gix::dir::entry::Kind::Repository)) { "/" } else { "" };
                let c = match entry.status {
                    gix::dir::entry::Status::Untracked => '?',
                    gix::dir::entry::Status::Ignored(_) => '!',
                    gix::dir::entry::Status::Tracked => 't',
                    gix::dir::entry::Status::Pruned => 'p',
                };
                lines.insert(format!("{c} {}{slash}", entry.rela_path.to_str_lossy()));
            }
            Item::Rewrite { dirwalk_entry, .. } => {
                lines.insert(format!("R {}", dirwalk_entry.rela_path.to_str_lossy()));
            }
        }
    }
    let out = iter.into_outcome().ok_or("status iterator has no outcome")?;
    let t = &out.index_worktree.tracked_file_modification;
    Ok(GixOut { lines, racy_clean: t.racy_clean, worktree_files_read: t.worktree_files_read, entries_to_update: t.entries_to_update })
}

// ------------------------------------------------------------------ the case

fn one_case(ctx: &mut Ctx, r: &mut Rng, max_files: usize) {
    let root = ctx.dir("case");
    let dir = root.join("r");
    let twin = root.join("twin");
    let s = match Scenario::build(ctx, r, &dir, max_files) {
        Ok(s) => s,
        Err(e) => {
            ctx.count("scenario_setup_failed");
            ctx.inconclusive(&format!("scenario setup: {}", e.chars().take(200).collect::<String>()));
            return;
        }
    };
    if let Err(e) = copy_tree(&dir, &twin) {
        ctx.inconclusive(&format!("twin copy: {e}"));
        return;
    }
    // two queries with different modes on the same scenario
    let mut queries: Vec<(Option<Untracked>, Ignored, bool)> = Vec::new();
    for _ in 0..2 {
        let u = *r.pick(&[Untracked::No, Untracked::Normal, Untracked::Normal, Untracked::All, Untracked::All]);
        let ig = if u == Untracked::No { Ignored::No } else { *r.pick(&[Ignored::No, Ignored::Matching, Ignored::Matching, Ignored::Traditional]) };
        // gitoxide documents that it cannot expand ignored directories (`traditional` + `all`)
        let ig = if ig == Ignored::Traditional && u == Untracked::All { Ignored::Matching } else { ig };
        let via_config = r.chance(1, 3);
        if !queries.iter().any(|q| q.0 == Some(u) && q.1 == ig) {
            queries.push((Some(u), ig, via_config));
        }
    }
    for (u, ig, via_config) in queries {
        let u_val = u.unwrap();
        // optionally let both tools read status.showUntrackedFiles from the configuration instead
        let u_arg = if via_config {
            let mut ok = true;
            for d in [&dir, &twin] {
                let p = d.join(".git/config");
                let mut c = String::from_utf8_lossy(&std::fs::read(&p).unwrap_or_default()).to_string();
                if let Some(i) = c.find("[status]") {
                    c.truncate(i);
                }
                c.push_str(&format!("[status]\n\tshowUntrackedFiles = {}\n", u_val.as_str()));
                ok &= std::fs::write(&p, c).is_ok();
            }
            if !ok {
                ctx.inconclusive("could not write config");
                return;
            }
            None
        } else {
            for d in [&dir, &twin] {
                let p = d.join(".git/config");
                let mut c = String::from_utf8_lossy(&std::fs::read(&p).unwrap_or_default()).to_string();
                if let Some(i) = c.find("[status]") {
                    c.truncate(i);
                    let _ = std::fs::write(&p, c);
                }
            }
            u
        };
        let git_twin = match git_status(ctx, &twin, u_arg, ig, false) {
            Ok(l) => l,
            Err(e) => {
                ctx.inconclusive(&format!("git status (twin): {}", e.chars().take(200).collect::<String>()));
                return;
            }
        };
        let gix_out = match guard(|| gix_status(&dir, u_arg, ig)) {
            Err(p) => {
                ctx.eval();
                ctx.panic_violation("Repository::status", &p, &format!("untracked={}|ignored={}", u_val.as_str(), ig.as_str()), witness(&s, u_val, ig, via_config, None, None));
                continue;
            }
            Ok(Err(e)) => {
                ctx.eval();
                // chain of error variant names, e.g. `into_index_worktree_iter: PrepareSubmodules>FindHeadCommit`
                let variant: String = e
                    .split(|c: char| c == '(' || c == '{')
                    .take(3)
                    .map(|seg| seg.trim().rsplit(|c: char| !(c.is_alphanumeric() || c == '_' || c == ':' || c == ' ')).next().unwrap_or("").trim().to_string())
                    .collect::<Vec<_>>()
                    .join(">");
                let variant = match e.split("kind: ").nth(1) {
                    Some(k) => format!("{variant}>{}", k.chars().take_while(|c| c.is_alphanumeric()).collect::<String>()),
                    None => variant,
                };
                let born = if s.unborn { "unborn-head" } else { "with-head" };
                // an executable file replaced by a symlink is not seen as type change (see the `typechange` signature);
                // the content comparison then opens the link target and fails if that is missing or a directory
                let facts = IndexFacts::load(&dir);
                let exec_to_link = facts.entries.iter().any(|(p, e)| e.0 == 0o100755 && std::fs::symlink_metadata(dir.join(p)).map_or(false, |m| m.file_type().is_symlink()));
                if !s.unborn && exec_to_link && (variant.ends_with(">NotFound") || variant.ends_with(">IsADirectory") || variant.ends_with(">FilesystemLoop")) {
                    let mut w = witness(&s, u_val, ig, via_config, None, Some(&git_twin));
                    w["error"] = json!(e);
                    ctx.violation(
                        "status|typechange|executable-file-replaced-by-symlink|status-fails",
                        &format!("an executable file replaced by a symlink to a missing target, a directory or itself makes gix status fail: {}", e.chars().take(160).collect::<String>()),
                        w,
                    );
                    continue;
                }
                let mut w = witness(&s, u_val, ig, via_config, None, Some(&git_twin));
                w["error"] = json!(e);
                ctx.violation(&format!("status|error|{born}|{variant}"), &format!("gix status failed on a repository git handles ({born}): {}", e.chars().take(160).collect::<String>()), w);
                continue;
            }
            Ok(Ok(o)) => o,
        };
        ctx.count_n("gix_racy_clean_entries", gix_out.racy_clean as u64);
        ctx.count_n("gix_worktree_files_read", gix_out.worktree_files_read as u64);
        ctx.count_n("gix_entries_to_update", gix_out.entries_to_update as u64);
        if gix_out.lines != git_twin {
            // soundness guard: does git say the same with the original's stat data (index not written)?
            let git_orig = match git_status(ctx, &dir, u_arg, ig, true) {
                Ok(l) => l,
                Err(e) => {
                    ctx.inconclusive(&format!("git status (original): {}", e.chars().take(200).collect::<String>()));
                    return;
                }
            };
            if git_orig != git_twin {
                ctx.count("skipped_git_original_vs_twin_differ");
                if gix_out.lines == git_orig {
                    ctx.count("skipped_gix_equals_git_on_original");
                }
                continue;
            }
        }
        ctx.eval();
        ctx.count("status_compared");
        let kinds: BTreeSet<char> = git_twin.iter().filter_map(|l| l.chars().next()).collect();
        for k in &kinds {
            ctx.count(&format!("git_lines_{k}"));
        }
        ctx.count_n("git_lines_total", git_twin.len() as u64);
        let collapsed_dirs = git_twin.iter().filter(|l| l.ends_with('/')).count();
        ctx.distinct((
            s.muts.iter().copied().collect::<Vec<_>>(),
            s.adds.iter().copied().collect::<Vec<_>>(),
            u_val,
            ig,
            via_config,
            s.index_time,
            (s.trust_ctime, s.smudge_step, !s.ita.is_empty(), s.unborn),
            kinds.iter().copied().collect::<Vec<_>>(),
            (gix_out.racy_clean > 0, collapsed_dirs.min(3)),
        ));
        if ctx.want_sample() {
            ctx.sample(json!({
                "tracked": s.tracked.len(), "mutations": s.log.iter().take(12).map(|(p, w)| format!("{p}: {w}")).collect::<Vec<_>>(),
                "untracked": u_val.as_str(), "ignored": ig.as_str(), "via_config": via_config, "index_time": format!("{:?}", s.index_time),
                "status": git_twin.iter().take(20).collect::<Vec<_>>(), "gix_racy_clean": gix_out.racy_clean,
            }));
        }
        if gix_out.lines == git_twin {
            continue;
        }
        // one violation per differing line class
        let facts = IndexFacts::load(&dir);
        let mut seen: BTreeSet<String> = BTreeSet::new();
        for (dirn, a, b) in [("gix-missing", &git_twin, &gix_out.lines), ("gix-extra", &gix_out.lines, &git_twin)] {
            for l in a.difference(b) {
                let kind = l.chars().next().unwrap_or(' ');
                let path = &l[2..];
                let bare = path.trim_end_matches('/');
                let class = s.class_of(path);
                let sig = match kind {
                    '?' | '!' | 't' | 'p' => {
                        let shape = if path.ends_with('/') { "dir" } else { "file" };
                        let below = |set: &Lines, other: &Lines, p: &str| set.difference(other).any(|g| (g.starts_with("? ") || g.starts_with("! ")) && g.ends_with('/') && g.len() > 3 && p.len() > g.len() - 2 && p.starts_with(&g[2..]));
                        // lines below a directory that the other side reported wholesale are explained by that directory's line
                        if (dirn == "gix-missing" && below(&gix_out.lines, &git_twin, path)) || (dirn == "gix-extra" && below(&git_twin, &gix_out.lines, path)) {
                            continue;
                        }
                        let gix_lists_content_instead = dirn == "gix-missing" && kind == '?' && shape == "dir" && gix_out.lines.difference(&git_twin).any(|g| g.len() > l.len() && g[2..].starts_with(path));
                        if gix_lists_content_instead {
                            "status|gix-missing|?|untracked-dir-not-collapsed".to_string()
                        } else if dirn == "gix-extra" && shape == "dir" && facts.is_file_entry(bare) {
                            "status|gix-extra|dir-replacing-tracked-file-listed".to_string()
                        } else if dirn == "gix-extra" && shape == "dir" && facts.has_entries_below(bare) {
                            format!("status|gix-extra|{kind}|collapsed-dir-has-index-entries")
                        } else if dirn == "gix-extra" && shape == "dir" && dir_tree_has_no_files(&dir.join(bare)) {
                            format!("status|gix-extra|{kind}|directory-tree-without-files")
                        } else if dirn == "gix-extra"
                            && kind == '?'
                            && shape == "dir"
                            && git::run(&dir, &["ls-files", "--others", "--exclude-standard", "--", bare]).map_or(false, |o| o.ok && o.stdout.is_empty())
                        {
                            // same cause one level up: the directory holds only ignored files and empty directories
                            "status|gix-extra|?|directory-with-only-ignored-files-and-empty-directories".to_string()
                        } else {
                            format!("status|{dirn}|{kind}|{shape}|untracked={}|ignored={}|{class}", u_val.as_str(), ig.as_str())
                        }
                    }
                    'M' if dirn == "gix-missing" && facts.racy_stat_match(&dir, bare, s.trust_ctime) => {
                        "status|gix-missing|M|racy-clean-entry-with-changed-content".to_string()
                    }
                    'T' if dirn == "gix-missing" && facts.mode_of(bare) == Some(0o100755) && gix_out.lines.contains(&format!("M {bare}")) => {
                        "status|typechange|executable-file-replaced-reported-as-M".to_string()
                    }
                    'M' if dirn == "gix-extra" && facts.mode_of(bare) == Some(0o100755) && git_twin.contains(&format!("T {bare}")) => continue,
                    _ => format!("status|{dirn}|{kind}|{class}"),
                };
                if seen.insert(sig.clone()) {
                    let mut w = witness(&s, u_val, ig, via_config, Some(&gix_out.lines), Some(&git_twin));
                    w["differing_line"] = json!(l);
                    w["gix_racy_clean"] = json!(gix_out.racy_clean);
                    ctx.violation(&sig, &format!("status line {l:?} is {dirn} (git on the twin and on the original agree)"), w);
                }
            }
        }
    }
}

fn dir_tree_has_no_files(p: &Path) -> bool {
    let Ok(rd) = std::fs::read_dir(p) else { return false };
    for e in rd.filter_map(|e| e.ok()) {
        match e.file_type() {
            Ok(t) if t.is_dir() => {
                if !dir_tree_has_no_files(&e.path()) {
                    return false;
                }
            }
            _ => return false,
        }
    }
    true
}

/// Facts about the index of the original, read for *classifying* a mismatch only (never for the verdict).
struct IndexFacts {
    entries: BTreeMap<String, (u32, u32, u32, u32)>, // path -> (mode, size, mtime secs, ctime secs)
    index_mtime_secs: i64,
}

impl IndexFacts {
    fn load(dir: &Path) -> IndexFacts {
        let mut entries = BTreeMap::new();
        let p = dir.join(".git/index");
        let index_mtime_secs = get_mtime(&p).map(|t| t.0).unwrap_or(0);
        if let Ok(Ok(f)) = guard(|| gix_index::File::at(&p, gix_hash::Kind::Sha1, false, Default::default())) {
            for e in f.entries() {
                entries.insert(e.path(&f).to_str_lossy().to_string(), (e.mode.bits(), e.stat.size, e.stat.mtime.secs, e.stat.ctime.secs));
            }
        }
        IndexFacts { entries, index_mtime_secs }
    }
    fn is_file_entry(&self, p: &str) -> bool {
        self.entries.contains_key(p)
    }
    fn has_entries_below(&self, p: &str) -> bool {
        let pre = format!("{p}/");
        self.entries.keys().any(|k| k.starts_with(&pre))
    }
    fn mode_of(&self, p: &str) -> Option<u32> {
        self.entries.get(p).map(|e| e.0)
    }
    /// the entry's cached stat equals the file's (size, mtime second[, ctime second]) and the mtime is not older than the index
    fn racy_stat_match(&self, dir: &Path, p: &str, trust_ctime: bool) -> bool {
        let Some(e) = self.entries.get(p) else { return false };
        let Ok(m) = std::fs::symlink_metadata(dir.join(p)) else { return false };
        m.len() as u32 == e.1 && m.mtime() as u32 == e.2 && (!trust_ctime || m.ctime() as u32 == e.3) && m.mtime() >= self.index_mtime_secs
    }
}

fn witness(s: &Scenario, u: Untracked, ig: Ignored, via_config: bool, gix: Option<&Lines>, git_: Option<&Lines>) -> serde_json::Value {
    let mut disk: Vec<String> = Vec::new();
    fn walk(base: &Path, rel: &str, out: &mut Vec<String>) {
        let Ok(rd) = std::fs::read_dir(base.join(rel)) else { return };
        let mut names: Vec<String> = rd.filter_map(|e| e.ok()).map(|e| e.file_name().to_string_lossy().to_string()).collect();
        names.sort();
        for n in names {
            if rel.is_empty() && n == ".git" {
                continue;
            }
            let p = if rel.is_empty() { n } else { format!("{rel}/{n}") };
            match std::fs::symlink_metadata(base.join(&p)) {
                Ok(m) if m.is_dir() => {
                    out.push(format!("{p}/"));
                    walk(base, &p, out);
                }
                Ok(m) if m.file_type().is_symlink() => out.push(format!("{p} -> {}", std::fs::read_link(base.join(&p)).map(|t| t.display().to_string()).unwrap_or_default())),
                Ok(m) => out.push(format!("{p} ({} bytes, mode {:o}, mtime {}.{:09})", m.len(), m.mode() & 0o777, m.mtime(), m.mtime_nsec())),
                Err(_) => {}
            }
        }
    }
    walk(&s.dir, "", &mut disk);
    let idx_m = get_mtime(&s.dir.join(".git/index")).unwrap_or((0, 0));
    let ls = git::run_env(&s.dir, &["ls-files", "-s", "--debug"], &[("GIT_OPTIONAL_LOCKS", "0")]).map(|o| show(&o.stdout)).unwrap_or_default();
    json!({
        "untracked_files": u.as_str(), "ignored": ig.as_str(), "mode_via_config": via_config,
        "tracked": s.tracked, "intent_to_add": s.ita,
        "root_gitignore": s.gitignore_root, "root_gitignore_tracked": s.gitignore_tracked, "info_exclude": s.exclude,
        "steps": s.log.iter().map(|(p, w)| format!("{p}: {w}")).collect::<Vec<_>>(),
        "index_time": format!("{:?}", s.index_time), "index_mtime": format!("{}.{:09}", idx_m.0, idx_m.1),
        "trust_ctime": s.trust_ctime, "unborn_head": s.unborn, "index_rewritten_between_mutation_rounds": s.smudge_step,
        "worktree": disk, "index_debug": ls,
        "gix": gix.map(|l| l.iter().cloned().collect::<Vec<_>>()),
        "git": git_.map(|l| l.iter().cloned().collect::<Vec<_>>()),
    })
}

pub fn run(ctx: &mut Ctx) {
    std::env::set_var("HOME", "/dev/shm/gxv-home");
    std::env::set_var("GIT_CONFIG_NOSYSTEM", "1");
    std::env::set_var("GIT_CONFIG_GLOBAL", "/dev/null");
    std::env::remove_var("XDG_CONFIG_HOME");
    std::env::remove_var("GIT_DIR");
    std::env::remove_var("GIT_WORK_TREE");
    let _ = fw::hex(&[]);

    ctx.rule(
        "case = repository of 3..N tracked files/symlinks (index written by `git add -A`, optional tracked/untracked .gitignore, info/exclude, \
         intent-to-add entries, core.trustctime on/off), worktree mutations per tracked path (different/same size edits, same-size edit or truncation with \
         restored mtime, touch, rewrite, chmod, delete, file<->dir, file<->symlink, symlink retarget, directory removal/replacement), an optional unrelated \
         index rewrite between two mutation rounds (git smudges racy entries), untracked/ignored additions (files, nested/empty dirs, dirs with only ignored \
         or mixed content, sub-directory .gitignore, symlinks), index-file mtime left alone / before all entries / equal to an entry / in the future; two \
         (untracked-files, ignored) mode queries per scenario, modes given as option or via status.showUntrackedFiles. \
         gix status lines {M,D,T,A,?,!} == git status --porcelain=v2 -z --no-renames on a twin copy (and on the original, afterwards, without index write). \
         distinct = (mutation kinds, addition kinds, untracked mode, ignored mode, config-vs-flag, index-time class, (trustctime, index rewrite, ita), kinds of lines in the answer, (racy entries seen, collapsed dirs))",
    );
    ctx.assume("rename tracking and HEAD-index comparison are disabled on both sides; submodules, nested repositories and unmerged entries are not generated");
    ctx.assume("`--ignored=traditional` is only combined with `--untracked-files=normal` (gitoxide documents that expanding ignored directories is not implemented)");
    ctx.assume("scenarios where git answers differently on the original and on the twin (stat caching legitimately hides a same-size change) are counted, not judged");
    let max_files = if ctx.quick() { 24 } else { 80 };
    let n = ctx.n(60, 2500);
    ctx.cases("scenario", n, |ctx, r| {
        let m = 4 + r.usize(max_files);
        one_case(ctx, r, m)
    });
}
