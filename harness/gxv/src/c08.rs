//! C08 Objects read from packs are exact, whatever caches are used.
//!
//! Oracle: git. One scenario = a random repository (fw::repogen with delta fodder plus a long
//! single-file edit chain) whose objects are packed by `git pack-objects` / `git index-pack --fix-thin`
//! into a fresh object directory (1..3 packs, varied --depth/--window, OFS and REF deltas, index v1 / v2 /
//! v2 with 64-bit offsets, pack compression 0..9, optional multi-pack-index). `git cat-file
//! --batch-all-objects --batch` of that directory gives the id -> (type, bytes) table (validated once with
//! an independent SHA-1). Then every object request made through
//!   * `gix_pack::Bundle::find` with each delta cache (Never, StaticLinkedList<1|4|64> x limits,
//!     MemoryCappedHashmap x caps) and
//!   * `gix_odb::Handle` (Cache) `try_find` with pack cache x object cache combinations
//! must return exactly that type and those bytes. Request sequences mix random picks, hot sets,
//! repetitions, delta chains walked tip->base and base->tip, and pack-offset order; the output buffer is
//! reused dirty, cleared, shrunk or fresh. A transparent spy wrapped around every cache records
//! hit/miss patterns (for reach) and checks the cache contract "a hit returns what was last put for
//! that key".
use crate::fw::{self, git, guard, repogen, Ctx, Rng};
use gix_hash::ObjectId;
use gix_object::Kind;
use gix_pack::cache::{self, DecodeEntry};
use serde_json::json;
use std::collections::HashMap;
use std::path::{Path, PathBuf};
use std::sync::{Arc, Mutex};

pub fn child(_mode: &str) {}

// ---------------------------------------------------------------- cache configurations

#[derive(Clone, Copy, Debug, PartialEq, Eq, Hash)]
enum PackCacheCfg {
    Never,
    /// (SIZE, mem_limit)
    Static(u8, usize),
    MemCapped(usize),
}

#[derive(Clone, Copy, Debug, PartialEq, Eq, Hash)]
enum ObjCacheCfg {
    None,
    MemCapped(usize),
}

fn cap_class(n: usize) -> &'static str {
    match n {
        0 => "unlimited",
        1..=8 => "tiny",
        9..=100 => "small",
        101..=20_000 => "medium",
        _ => "large",
    }
}

impl PackCacheCfg {
    fn make(&self) -> Box<dyn DecodeEntry + Send> {
        match *self {
            PackCacheCfg::Never => Box::new(cache::Never),
            PackCacheCfg::Static(1, l) => Box::new(cache::lru::StaticLinkedList::<1>::new(l)),
            PackCacheCfg::Static(4, l) => Box::new(cache::lru::StaticLinkedList::<4>::new(l)),
            PackCacheCfg::Static(_, l) => Box::new(cache::lru::StaticLinkedList::<64>::new(l)),
            PackCacheCfg::MemCapped(c) => Box::new(cache::lru::MemoryCappedHashmap::new(c)),
        }
    }
    fn impl_name(&self) -> &'static str {
        match self {
            PackCacheCfg::Never => "never",
            PackCacheCfg::Static(..) => "static-lru",
            PackCacheCfg::MemCapped(_) => "memcap-lru",
        }
    }
    fn class(&self) -> String {
        match *self {
            PackCacheCfg::Never => "never".into(),
            PackCacheCfg::Static(s, l) => format!("static<{}>/{}", if s == 1 || s == 4 { s } else { 64 }, cap_class(l)),
            PackCacheCfg::MemCapped(c) => format!("memcap/{}", cap_class(c)),
        }
    }
    fn all(r: &mut Rng) -> Vec<PackCacheCfg> {
        let mut v = vec![PackCacheCfg::Never];
        for s in [1u8, 4, 64] {
            for l in [1usize, 8, 64, 4096, 0] {
                v.push(PackCacheCfg::Static(s, l));
            }
            // a limit in the range of the object sizes of this workload: constant eviction / clearing
            v.push(PackCacheCfg::Static(s, 100 + r.usize(30_000)));
        }
        for c in [1usize, 64, 10_000, 10_000_000] {
            v.push(PackCacheCfg::MemCapped(c));
        }
        v.push(PackCacheCfg::MemCapped(100 + r.usize(30_000)));
        v
    }
}

impl ObjCacheCfg {
    fn make(&self) -> Option<Box<dyn cache::Object + Send>> {
        match *self {
            ObjCacheCfg::None => None,
            ObjCacheCfg::MemCapped(c) => Some(Box::new(cache::object::MemoryCappedHashmap::new(c))),
        }
    }
    fn class(&self) -> String {
        match *self {
            ObjCacheCfg::None => "none".into(),
            ObjCacheCfg::MemCapped(c) => format!("objcap/{}", cap_class(c)),
        }
    }
}

// ---------------------------------------------------------------- spies

#[derive(Default)]
struct SpyState {
    /// results of delta-cache gets during the current request, in order
    gets: Vec<bool>,
    puts_now: u32,
    obj_get: Option<bool>,
    model: HashMap<(u32, u64), (u64, Kind)>,
    obj_model: HashMap<ObjectId, (u64, Kind)>,
    contract: Option<String>,
    hits: u64,
    misses: u64,
    puts: u64,
    min_put: Option<usize>,
    obj_hits: u64,
    obj_misses: u64,
}

type Shared = Arc<Mutex<SpyState>>;

fn lock(s: &Shared) -> std::sync::MutexGuard<'_, SpyState> {
    s.lock().unwrap_or_else(|e| e.into_inner())
}

struct Spy {
    inner: Box<dyn DecodeEntry + Send>,
    st: Shared,
}

impl DecodeEntry for Spy {
    fn put(&mut self, pack_id: u32, offset: u64, data: &[u8], kind: Kind, compressed_size: usize) {
        {
            let mut st = lock(&self.st);
            st.puts += 1;
            st.puts_now += 1;
            st.min_put = Some(st.min_put.map_or(data.len(), |m| m.min(data.len())));
            st.model.insert((pack_id, offset), (fw::hash_of(&data), kind));
        }
        self.inner.put(pack_id, offset, data, kind, compressed_size);
    }
    fn get(&mut self, pack_id: u32, offset: u64, out: &mut Vec<u8>) -> Option<(Kind, usize)> {
        let res = self.inner.get(pack_id, offset, out);
        let mut st = lock(&self.st);
        st.gets.push(res.is_some());
        match res {
            Some((kind, _)) => {
                st.hits += 1;
                let verdict = match st.model.get(&(pack_id, offset)) {
                    None => Some("hit for a key that was never put".to_string()),
                    Some((h, k)) => {
                        if *k != kind {
                            Some(format!("hit returns kind {kind} but {k} was put"))
                        } else if *h != fw::hash_of(&out.as_slice()) {
                            Some("hit returns other bytes than the last put for the key".to_string())
                        } else {
                            None
                        }
                    }
                };
                if let (Some(v), None) = (verdict, st.contract.as_ref()) {
                    st.contract = Some(v);
                }
            }
            None => st.misses += 1,
        }
        res
    }
}

struct ObjSpy {
    inner: Box<dyn cache::Object + Send>,
    st: Shared,
}

impl cache::Object for ObjSpy {
    fn put(&mut self, id: ObjectId, kind: Kind, data: &[u8]) {
        lock(&self.st).obj_model.insert(id, (fw::hash_of(&data), kind));
        self.inner.put(id, kind, data);
    }
    fn get(&mut self, id: &ObjectId, out: &mut Vec<u8>) -> Option<Kind> {
        let res = self.inner.get(id, out);
        let mut st = lock(&self.st);
        st.obj_get = Some(res.is_some());
        match res {
            Some(kind) => {
                st.obj_hits += 1;
                let verdict = match st.obj_model.get(id) {
                    None => Some("object-cache hit for an id that was never put".to_string()),
                    Some((h, k)) => {
                        if *k != kind || *h != fw::hash_of(&out.as_slice()) {
                            Some("object-cache hit returns other content than the last put".to_string())
                        } else {
                            None
                        }
                    }
                };
                if let (Some(v), None) = (verdict, st.contract.as_ref()) {
                    st.contract = Some(v);
                }
            }
            None => st.obj_misses += 1,
        }
        res
    }
}

// ---------------------------------------------------------------- scenario data

struct Obj {
    id: ObjectId,
    kind: Kind,
    data: Vec<u8>,
}

struct PackView {
    idx_path: PathBuf,
    /// indices into Scenario::objs, in pack-offset order
    by_offset: Vec<usize>,
    offsets: Vec<u64>,
    /// object index -> (delta depth, base object index)
    chain: HashMap<usize, (u32, Option<usize>)>,
    max_depth: u32,
    desc: String,
}

struct Scenario {
    objs: Vec<Obj>,
    packs: Vec<PackView>,
    objects_dir: PathBuf,
    layout: String,
    /// two packs whose entries sit at the same offsets
    twins: Option<(usize, usize)>,
}

fn parse_kind(s: &str) -> Option<Kind> {
    Kind::from_bytes(s.as_bytes()).ok()
}

/// parse `git cat-file --batch` output
fn parse_batch(mut b: &[u8]) -> Result<Vec<Obj>, String> {
    let mut out = Vec::new();
    while !b.is_empty() {
        let nl = b.iter().position(|c| *c == b'\n').ok_or("batch: header without newline")?;
        let head = std::str::from_utf8(&b[..nl]).map_err(|e| e.to_string())?;
        let mut it = head.split(' ');
        let (Some(id), Some(kind), Some(size)) = (it.next(), it.next(), it.next()) else {
            return Err(format!("batch: bad header {head:?}"));
        };
        let size: usize = size.parse().map_err(|_| format!("batch: bad size in {head:?}"))?;
        let kind = parse_kind(kind).ok_or_else(|| format!("batch: bad kind in {head:?}"))?;
        let start = nl + 1;
        if b.len() < start + size + 1 {
            return Err("batch: truncated".into());
        }
        let data = b[start..start + size].to_vec();
        let id = ObjectId::from_hex(id.as_bytes()).map_err(|e| e.to_string())?;
        out.push(Obj { id, kind, data });
        b = &b[start + size + 1..];
    }
    Ok(out)
}

fn mutate_text(r: &mut Rng, v: &mut Vec<u8>) {
    for _ in 0..1 + r.usize(3) {
        if v.is_empty() {
            v.extend_from_slice(b"seed line\n");
        }
        let i = r.usize(v.len());
        match r.below(4) {
            0 => v[i] = b'a' + r.below(26) as u8,
            1 => {
                let ins = format!("inserted {} {}\n", r.below(100_000), r.below(100));
                let tail = v.split_off(i);
                v.extend_from_slice(ins.as_bytes());
                v.extend_from_slice(&tail);
            }
            2 => {
                let l = (1 + r.usize(60)).min(v.len() - i);
                v.drain(i..i + l);
            }
            _ => {
                let extra = format!("appended {}\n", r.below(1_000_000));
                v.extend_from_slice(extra.as_bytes());
            }
        }
    }
}

/// A linear history on refs/keep/chain whose single file is edited a little per commit: long delta chains.
fn add_chain(src: &Path, r: &mut Rng, versions: usize) -> Result<(), String> {
    let mut content: Vec<u8> = Vec::new();
    let span = if r.chance(1, 4) { 40_000 } else { 6_000 };
    let target = 300 + r.usize(span);
    let binary = r.chance(1, 5);
    while content.len() < target {
        if binary {
            let n = 1 + r.usize(64);
            content.extend(r.bytes(n));
        } else {
            content.extend_from_slice(format!("chain line {} {}\n", r.below(500), r.below(100_000)).as_bytes());
        }
    }
    let mut stream: Vec<u8> = Vec::new();
    // growing-only histories sort by size the way git's delta search likes: chains as deep as --depth allows
    let growing = r.bool();
    for i in 0..versions {
        if growing {
            let extra = format!("appended {} {}\n", i, r.below(1_000_000));
            content.extend_from_slice(extra.as_bytes());
            if r.chance(1, 3) && !binary {
                let p = r.usize(content.len());
                content[p] = b'a' + r.below(26) as u8;
            }
        } else {
            mutate_text(r, &mut content);
        }
        let msg = format!("chain {i}\n");
        stream.extend_from_slice(
            format!(
                "commit refs/keep/chain\nmark :{}\ncommitter C O Mitter <committer@example.com> {} +0000\ndata {}\n{}",
                i + 1,
                1_600_000_000 + i,
                msg.len(),
                msg
            )
            .as_bytes(),
        );
        if i > 0 {
            stream.extend_from_slice(format!("from :{}\n", i).as_bytes());
        }
        stream.extend_from_slice(format!("M 100644 inline chain/file.txt\ndata {}\n", content.len()).as_bytes());
        stream.extend_from_slice(&content);
        stream.push(b'\n');
        if r.chance(1, 6) {
            let small = format!("small {}\n", r.below(50));
            stream.extend_from_slice(format!("M 100644 inline chain/small-{}\ndata {}\n{}\n", r.below(40), small.len(), small).as_bytes());
        }
        stream.push(b'\n');
    }
    let o = git::run_in(src, &["fast-import", "--quiet", "--force"], &stream).map_err(|e| e.to_string())?;
    if !o.ok {
        return Err(format!("fast-import(chain) failed: {}", o.err_text()));
    }
    Ok(())
}

/// Two series of blobs with identical lengths and identical edit positions but different bytes. Packed with
/// zlib level 0 and the same options, the two packs get the same entry offsets: cache keys that differ only
/// in the pack id.
fn add_twins(src: &Path, r: &mut Rng, versions: usize) -> Result<(Vec<String>, Vec<String>), String> {
    let len = 400 + r.usize(3000);
    let mut a: Vec<u8> = Vec::with_capacity(len);
    let mut b: Vec<u8> = Vec::with_capacity(len);
    for i in 0..len {
        if i % 40 == 39 {
            a.push(b'\n');
            b.push(b'\n');
        } else {
            a.push(b'a' + r.below(26) as u8);
            b.push(b'A' + r.below(26) as u8);
        }
    }
    let mut stream: Vec<u8> = Vec::new();
    let (mut ids_a, mut ids_b) = (Vec::new(), Vec::new());
    for _ in 0..versions {
        for _ in 0..1 + r.usize(2) {
            let p = r.usize(len);
            if p % 40 != 39 {
                // always a real change, in both series
                let k = 1 + r.below(25) as u8;
                a[p] = b'a' + (a[p] - b'a' + k) % 26;
                b[p] = b'A' + (b[p] - b'A' + k) % 26;
            }
        }
        for (v, ids) in [(&a, &mut ids_a), (&b, &mut ids_b)] {
            stream.extend_from_slice(format!("blob\ndata {}\n", v.len()).as_bytes());
            stream.extend_from_slice(v);
            stream.push(b'\n');
            ids.push(fw::hex(&fw::git_oid("blob", v)));
        }
    }
    let o = git::run_in(src, &["fast-import", "--quiet", "--force"], &stream).map_err(|e| e.to_string())?;
    if !o.ok {
        return Err(format!("fast-import(twins) failed: {}", o.err_text()));
    }
    for ids in [&mut ids_a, &mut ids_b] {
        let mut seen = std::collections::HashSet::new();
        ids.retain(|i| seen.insert(i.clone()));
    }
    Ok((ids_a, ids_b))
}

struct PackOpts {
    depth: u32,
    window: u32,
    ofs: bool,
    no_reuse: bool,
    index_version: &'static str,
    compression: i64,
}

impl PackOpts {
    fn random(r: &mut Rng) -> PackOpts {
        PackOpts {
            depth: *r.pick(&[1, 5, 50, 250]),
            window: *r.pick(&[0, 10, 10, 250]),
            ofs: r.chance(3, 5),
            no_reuse: r.chance(2, 3),
            index_version: *r.pick(&["2", "2", "2", "1", "2,0x100", "2,0x10"]),
            compression: r.range(-1, 9),
        }
    }
    fn desc(&self) -> String {
        format!(
            "depth={} window={} {} {} idx={} z={}",
            self.depth,
            self.window,
            if self.ofs { "ofs-delta" } else { "ref-delta" },
            if self.no_reuse { "no-reuse-delta" } else { "reuse-delta" },
            self.index_version,
            self.compression
        )
    }
    fn config_args(&self) -> Vec<String> {
        let mut v = vec!["-c".to_string(), "pack.threads=1".to_string()];
        if self.compression >= 0 {
            v.push("-c".into());
            v.push(format!("pack.compression={}", self.compression));
        }
        v
    }
}

fn pack_dir(dst: &Path) -> PathBuf {
    dst.join("objects").join("pack")
}

/// `git pack-objects` of `ids` (read from `src`) into dst/objects/pack; returns the .idx path
fn pack_ids(src: &Path, dst: &Path, ids: &[String], o: &PackOpts) -> Result<PathBuf, String> {
    let prefix = pack_dir(dst).join("pack");
    let mut args = o.config_args();
    args.push("pack-objects".into());
    args.push("-q".into());
    args.push(format!("--depth={}", o.depth));
    args.push(format!("--window={}", o.window));
    args.push(format!("--index-version={}", o.index_version));
    if o.ofs {
        args.push("--delta-base-offset".into());
    }
    if o.no_reuse {
        args.push("--no-reuse-delta".into());
    }
    args.push(prefix.display().to_string());
    let mut input = ids.join("\n");
    input.push('\n');
    let hash = git::ok_in(src, &args, input.as_bytes())?;
    let idx = pack_dir(dst).join(format!("pack-{}.idx", hash.trim()));
    if !idx.is_file() {
        return Err(format!("pack-objects did not create {}", idx.display()));
    }
    Ok(idx)
}

fn lines(s: &str) -> Vec<String> {
    s.lines().map(|l| l.split(' ').next().unwrap_or("").to_string()).filter(|l| !l.is_empty()).collect()
}

fn build_scenario(ctx: &mut Ctx, r: &mut Rng, root: &Path) -> Result<Scenario, String> {
    let src = root.join("src.git");
    let dst = root.join("dst.git");
    let mut spec = repogen::DagSpec::small(r);
    spec.delta_fodder = true;
    spec.commits = 3 + r.usize(if ctx.quick() { 30 } else { 70 });
    spec.max_changes = 1 + r.usize(4);
    let repo = repogen::build_dag(&src, r, &spec)?;
    let versions = if r.chance(1, 5) { 0 } else { 5 + r.usize(if ctx.quick() { 300 } else { 600 }) };
    if versions > 0 {
        add_chain(&src, r, versions)?;
    }
    git::init(&dst, true)?;
    let all_ids: Vec<String> = repo.all_objects()?.into_iter().map(|t| t.0).collect();
    let mut idx_paths: Vec<(PathBuf, String)> = Vec::new();
    let layout;
    let mut twins: Option<(usize, usize)> = None;
    match r.below(12) {
        0..=3 => {
            let o = PackOpts::random(r);
            idx_paths.push((pack_ids(&src, &dst, &all_ids, &o)?, o.desc()));
            layout = "single";
        }
        10 | 11 => {
            // everything else in one pack, plus two packs with identical entry offsets
            let o = PackOpts::random(r);
            idx_paths.push((pack_ids(&src, &dst, &all_ids, &o)?, o.desc()));
            let nv = 8 + r.usize(if ctx.quick() { 50 } else { 150 });
            let (ids_a, ids_b) = add_twins(&src, r, nv)?;
            let o = PackOpts { depth: *r.pick(&[5, 50]), window: 10, ofs: r.bool(), no_reuse: true, index_version: "2", compression: 0 };
            idx_paths.push((pack_ids(&src, &dst, &ids_a, &o)?, format!("twin-a: {}", o.desc())));
            idx_paths.push((pack_ids(&src, &dst, &ids_b, &o)?, format!("twin-b: {}", o.desc())));
            twins = Some((idx_paths.len() - 2, idx_paths.len() - 1));
            layout = "twins";
        }
        4..=6 => {
            let k = 2 + r.usize(2);
            let mut groups: Vec<Vec<String>> = vec![Vec::new(); k];
            for id in &all_ids {
                groups[r.usize(k)].push(id.clone());
                // some objects live in more than one pack
                if r.chance(1, 12) {
                    groups[r.usize(k)].push(id.clone());
                }
            }
            for g in groups.iter_mut() {
                g.sort();
                g.dedup();
                if g.is_empty() {
                    continue;
                }
                let o = PackOpts::random(r);
                idx_paths.push((pack_ids(&src, &dst, g, &o)?, o.desc()));
            }
            layout = "multi";
        }
        _ => {
            // base pack with the history up to some commits, then a thin pack completed by git index-pack --fix-thin
            let mut haves = vec![r.pick(&repo.commits).id.clone()];
            if versions > 1 {
                let back = 1 + r.usize(versions - 1);
                if let Ok(id) = git::ok(&src, &["rev-parse", &format!("refs/keep/chain~{back}")]) {
                    haves.push(id);
                }
            }
            let mut args = vec!["rev-list".to_string(), "--objects".to_string()];
            args.extend(haves.iter().cloned());
            let base_ids = lines(&git::ok(&src, &args)?);
            let o = PackOpts::random(r);
            idx_paths.push((pack_ids(&src, &dst, &base_ids, &o)?, format!("base: {}", o.desc())));
            let tips = lines(&git::ok(&src, &["for-each-ref", "--format=%(objectname)"])?);
            let mut revs = String::new();
            for t in &tips {
                revs.push_str(t);
                revs.push('\n');
            }
            for h in &haves {
                revs.push('^');
                revs.push_str(h);
                revs.push('\n');
            }
            let o = PackOpts::random(r);
            let mut pargs = o.config_args();
            pargs.extend(
                ["pack-objects", "-q", "--thin", "--stdout", "--revs"].iter().map(|s| s.to_string()),
            );
            pargs.push(format!("--depth={}", o.depth));
            pargs.push(format!("--window={}", o.window.max(10)));
            if o.ofs {
                pargs.push("--delta-base-offset".into());
            }
            let thin = git::run_in(&src, &pargs, revs.as_bytes()).map_err(|e| e.to_string())?;
            if !thin.ok {
                return Err(format!("pack-objects --thin failed: {}", thin.err_text()));
            }
            if thin.stdout.len() > 12 + 20 && thin.stdout[8..12] != [0, 0, 0, 0] {
                let iv = format!("--index-version={}", o.index_version);
                let res = git::run_in(&dst, &["index-pack", "--fix-thin", "--stdin", "--threads=1", &iv], &thin.stdout)
                    .map_err(|e| e.to_string())?;
                if !res.ok {
                    return Err(format!("index-pack --fix-thin failed: {}", res.err_text()));
                }
                let text = res.text();
                let hash = text.split_whitespace().last().unwrap_or("").to_string();
                let idx = pack_dir(&dst).join(format!("pack-{hash}.idx"));
                if !idx.is_file() {
                    return Err(format!("index-pack output not understood: {text:?}"));
                }
                idx_paths.push((idx, format!("fix-thin: {}", o.desc())));
            }
            layout = "thin-fixed";
        }
    }
    let midx = idx_paths.len() > 1 && r.chance(1, 3);
    if midx {
        git::ok(&dst, &["multi-pack-index", "write"])?;
    }
    // the oracle table
    let o = git::run(&dst, &["cat-file", "--batch-all-objects", "--batch"]).map_err(|e| e.to_string())?;
    if !o.ok {
        return Err(format!("cat-file --batch failed: {}", o.err_text()));
    }
    ctx.count("git_calls_cat_file_batch");
    let objs = parse_batch(&o.stdout)?;
    if objs.is_empty() {
        return Err("no objects in destination".into());
    }
    for ob in &objs {
        if fw::git_oid(std::str::from_utf8(ob.kind.as_bytes()).unwrap_or("?"), &ob.data) != ob.id.as_bytes()[..] {
            return Err(format!("oracle table inconsistent for {}", ob.id));
        }
    }
    if layout != "thin-fixed" && layout != "twins" && objs.len() != all_ids.len() {
        return Err(format!("destination has {} objects, source {}", objs.len(), all_ids.len()));
    }
    let pos: HashMap<ObjectId, usize> = objs.iter().enumerate().map(|(i, o)| (o.id, i)).collect();
    let mut packs = Vec::new();
    for (idx, desc) in idx_paths {
        let text = git::ok(&dst, &["verify-pack", "-v", &idx.display().to_string()])?;
        ctx.count("git_calls_verify_pack");
        let mut rows: Vec<(u64, usize, u32, Option<usize>)> = Vec::new();
        for l in text.lines() {
            let f: Vec<&str> = l.split_whitespace().collect();
            if f.len() < 5 || f[0].len() != 40 {
                continue;
            }
            let Ok(id) = ObjectId::from_hex(f[0].as_bytes()) else { continue };
            let Some(&oi) = pos.get(&id) else {
                return Err(format!("verify-pack lists {id} which cat-file does not know"));
            };
            let offset: u64 = f[4].parse().map_err(|_| "verify-pack offset".to_string())?;
            let (depth, base) = if f.len() >= 7 {
                let b = ObjectId::from_hex(f[6].as_bytes()).ok().and_then(|b| pos.get(&b).copied());
                (f[5].parse().unwrap_or(1), b)
            } else {
                (0, None)
            };
            rows.push((offset, oi, depth, base));
        }
        rows.sort();
        let max_depth = rows.iter().map(|r| r.2).max().unwrap_or(0);
        packs.push(PackView {
            idx_path: idx,
            by_offset: rows.iter().map(|r| r.1).collect(),
            offsets: rows.iter().map(|r| r.0).collect(),
            chain: rows.iter().map(|r| (r.1, (r.2, r.3))).collect(),
            max_depth,
            desc,
        });
    }
    ctx.count(&format!("layout_{layout}"));
    if let Some((a, b)) = twins {
        // reach: entries that sit at the same offset in both packs
        let offs = |p: &PackView| -> std::collections::HashSet<u64> { p.offsets.iter().copied().collect() };
        let common = offs(&packs[a]).intersection(&offs(&packs[b])).count();
        ctx.count_n("twin_pack_same_offset_entries", common as u64);
        ctx.count_n("twin_pack_entries", packs[a].offsets.len() as u64);
    }
    if midx {
        ctx.count("layout_with_multi_pack_index");
    }
    Ok(Scenario {
        objs,
        packs,
        objects_dir: dst.join("objects"),
        layout: format!("{layout}{}", if midx { "+midx" } else { "" }),
        twins,
    })
}

// ---------------------------------------------------------------- request sequences

fn gen_requests(r: &mut Rng, views: &[&PackView], twins: Option<(&PackView, &PackView)>, n: usize) -> Vec<usize> {
    let mut out = Vec::with_capacity(n + 64);
    while out.len() < n {
        if let Some((a, b)) = twins {
            if r.chance(1, 3) {
                // alternate between the entries at the same position of the twin packs
                let m = a.by_offset.len().min(b.by_offset.len());
                if m > 0 {
                    let len = (3 + r.usize(30)).min(m);
                    let start = r.usize(m - len + 1);
                    for j in start..start + len {
                        out.push(a.by_offset[j]);
                        out.push(b.by_offset[j]);
                        if r.chance(1, 4) {
                            out.push(a.by_offset[j]);
                        }
                    }
                }
                continue;
            }
        }
        let v = *r.pick(views);
        if v.by_offset.is_empty() {
            continue;
        }
        let any = |r: &mut Rng| v.by_offset[r.usize(v.by_offset.len())];
        // prefer deltified objects as starting points
        let deep = |r: &mut Rng| {
            let mut best = any(r);
            for _ in 0..6 {
                let c = any(r);
                if v.chain.get(&c).map(|c| c.0).unwrap_or(0) > v.chain.get(&best).map(|c| c.0).unwrap_or(0) {
                    best = c;
                }
            }
            best
        };
        match r.below(8) {
            0 => {
                for _ in 0..10 + r.usize(40) {
                    out.push(any(r));
                }
            }
            1 => {
                let hot: Vec<usize> = (0..2 + r.usize(7)).map(|_| if r.bool() { deep(r) } else { any(r) }).collect();
                for _ in 0..10 + r.usize(60) {
                    out.push(*r.pick(&hot));
                }
            }
            2 | 3 => {
                // a delta chain tip -> base, possibly followed by base -> tip
                let mut chain = vec![deep(r)];
                while let Some((_, Some(b))) = v.chain.get(chain.last().unwrap()) {
                    if chain.len() > 300 {
                        break;
                    }
                    chain.push(*b);
                }
                let mode = r.below(3);
                if mode != 1 {
                    out.extend(chain.iter().copied());
                }
                if mode != 0 {
                    out.extend(chain.iter().rev().copied());
                }
            }
            4 => {
                let o = deep(r);
                for _ in 0..2 + r.usize(4) {
                    out.push(o);
                }
            }
            5 => {
                let len = (5 + r.usize(40)).min(v.by_offset.len());
                let start = r.usize(v.by_offset.len() - len + 1);
                let w = &v.by_offset[start..start + len];
                if r.bool() {
                    out.extend(w.iter().copied());
                } else {
                    out.extend(w.iter().rev().copied());
                }
            }
            6 => {
                // tips first, then their bases, interleaved over several chains
                let tips: Vec<usize> = (0..2 + r.usize(4)).map(|_| deep(r)).collect();
                let mut cur = tips.clone();
                for _ in 0..1 + r.usize(12) {
                    for c in cur.iter_mut() {
                        out.push(*c);
                        if let Some((_, Some(b))) = v.chain.get(c) {
                            *c = *b;
                        }
                    }
                }
                out.extend(tips);
            }
            _ => {
                let a = deep(r);
                let b = any(r);
                for _ in 0..2 + r.usize(6) {
                    out.push(a);
                    out.push(b);
                }
            }
        }
    }
    out.truncate(n);
    out
}

fn dirty_buffer(r: &mut Rng, buf: &mut Vec<u8>) -> &'static str {
    match r.below(8) {
        0 => {
            *buf = Vec::new();
            "fresh"
        }
        1 => {
            buf.clear();
            "cleared"
        }
        2 => {
            buf.clear();
            let n = r.usize(9000);
            buf.resize(n, 0xAA);
            "garbage"
        }
        3 => {
            buf.truncate(r.usize(buf.len() + 1));
            buf.shrink_to_fit();
            "shrunk"
        }
        _ => "reused",
    }
}

fn depth_bucket(d: u32) -> u8 {
    match d {
        0 => 0,
        1 => 1,
        2..=4 => 2,
        5..=15 => 3,
        16..=49 => 4,
        _ => 5,
    }
}

/// how the caches took part in the current request
fn take_hit_class(st: &Shared) -> (u8, Option<String>) {
    let mut s = lock(st);
    let class = if s.obj_get == Some(true) {
        4 // object cache hit
    } else if s.gets.is_empty() {
        0 // not a delta / no cache consulted
    } else if s.gets[0] {
        1 // the requested entry itself was cached
    } else if s.gets.iter().any(|g| *g) {
        2 // a base further down the chain was cached
    } else {
        3 // miss all the way
    };
    s.gets.clear();
    s.puts_now = 0;
    s.obj_get = None;
    (class, s.contract.take())
}

fn err_class(e: &dyn std::fmt::Debug) -> String {
    let s = format!("{e:?}");
    s.chars().take_while(|c| c.is_ascii_alphanumeric() || *c == '_').collect()
}

struct Judge<'a> {
    path: &'static str,
    cfg_impl: String,
    cfg_class: String,
    sc: &'a Scenario,
    last: [u8; 4],
}

impl Judge<'_> {
    #[allow(clippy::too_many_arguments)]
    fn check(
        &mut self,
        ctx: &mut Ctx,
        req_no: usize,
        oi: usize,
        depth: u32,
        got: Result<Option<(Kind, usize)>, String>,
        buf: &[u8],
        hit: u8,
        buf_mode: &str,
        plain_ok: &dyn Fn() -> bool,
    ) {
        let ob = &self.sc.objs[oi];
        // triage for signatures: does the same request fail without any cache (fresh buffer) too?
        let who = |s: &Self| -> String {
            if s.cfg_impl == "never" || !plain_ok() {
                "cache-independent".to_string()
            } else {
                format!("cache:{}", s.cfg_impl)
            }
        };
        ctx.eval();
        self.last = [self.last[1], self.last[2], self.last[3], hit];
        ctx.distinct((self.path, self.cfg_class.clone(), depth_bucket(depth), self.last));
        let wit = |extra: serde_json::Value| {
            json!({"path": self.path, "cache": self.cfg_class, "layout": self.sc.layout, "request_no": req_no,
                   "id": ob.id.to_string(), "want_kind": ob.kind.to_string(), "want_size": ob.data.len(),
                   "delta_depth": depth, "hit_class": hit, "buffer": buf_mode,
                   "packs": self.sc.packs.iter().map(|p| p.desc.clone()).collect::<Vec<_>>(), "detail": extra})
        };
        match got {
            Err(e) => {
                let sig = format!("decode|error|{}|{}", self.path, who(self));
                ctx.violation(&sig, &format!("object present in a git-made pack could not be decoded: {e}"), wit(json!({"error": e})));
            }
            Ok(None) => {
                let sig = format!("decode|not-found|{}|{}", self.path, who(self));
                ctx.violation(&sig, "object present in a git-made pack was not found", wit(json!(null)));
            }
            Ok(Some((kind, len))) => {
                if kind != ob.kind {
                    let sig = format!("decode|wrong-kind|{}|{}", self.path, who(self));
                    ctx.violation(&sig, &format!("decoded kind {kind} but git reports {}", ob.kind), wit(json!({"got_kind": kind.to_string()})));
                }
                let data = &buf[..len.min(buf.len())];
                if data != ob.data.as_slice() {
                    let first = data.iter().zip(ob.data.iter()).position(|(a, b)| a != b).unwrap_or(data.len().min(ob.data.len()));
                    let sig = format!("decode|wrong-bytes|{}|{}", self.path, who(self));
                    ctx.violation(
                        &sig,
                        &format!("decoded bytes differ from git's (got {} bytes, want {}, first difference at {first})", data.len(), ob.data.len()),
                        wit(json!({"got_size": data.len(), "first_diff": first, "got_sha1_as_object": fw::hex(&fw::git_oid(&ob.kind.to_string(), data))})),
                    );
                } else if req_no % 16 == 0 {
                    // independent of git's table: the bytes hash to the requested id
                    ctx.count("sha1_rechecks");
                    if fw::git_oid(&kind.to_string(), data) != ob.id.as_bytes()[..] {
                        let sig = format!("decode|sha1-mismatch|{}|{}", self.path, who(self));
                        ctx.violation(&sig, "decoded (kind, bytes) do not hash to the requested id", wit(json!(null)));
                    }
                }
            }
        }
        if req_no % 41 == 7 && ctx.want_sample() {
            ctx.sample(json!({"path": self.path, "cache": self.cfg_class, "layout": self.sc.layout, "id": ob.id.to_string(),
                "kind": ob.kind.to_string(), "size": ob.data.len(), "delta_depth": depth, "hit_class": hit, "buffer": buf_mode}));
        }
    }
}

const HIT_NAMES: [&str; 5] = ["hit_none_consulted", "hit_entry_cached", "hit_base_cached_midchain", "hit_miss_full_chain", "hit_object_cache"];

fn run_bundle(ctx: &mut Ctx, r: &mut Rng, sc: &Scenario, cfg: PackCacheCfg, n_req: usize) {
    let pv = r.pick(&sc.packs);
    let bundle = match gix_pack::Bundle::at(&pv.idx_path, gix_hash::Kind::Sha1) {
        Ok(b) => b,
        Err(e) => {
            ctx.violation("open|bundle", &format!("Bundle::at failed on a git-made pack: {e}"), json!({"pack": pv.desc, "layout": sc.layout}));
            return;
        }
    };
    // reach: which entry kinds does this pack really contain
    if r.chance(1, 4) {
        for i in 0..bundle.index.num_objects() {
            if let Ok(e) = bundle.pack.entry(bundle.index.pack_offset_at_index(i)) {
                use gix_pack::data::entry::Header::*;
                ctx.count(match e.header {
                    OfsDelta { .. } => "entries_ofs_delta",
                    RefDelta { .. } => "entries_ref_delta",
                    _ => "entries_base",
                });
            }
        }
    }
    let st: Shared = Default::default();
    let new_cache = |st: &Shared| -> Spy {
        let mut s = lock(st);
        s.model.clear();
        Spy { inner: cfg.make(), st: st.clone() }
    };
    let mut spy = new_cache(&st);
    let mut inflate = gix_features::zlib::Inflate::default();
    let reqs = gen_requests(r, &[pv], None, n_req);
    let mut buf = Vec::new();
    let mut judge = Judge { path: "bundle", cfg_impl: cfg.impl_name().into(), cfg_class: cfg.class(), sc, last: [9; 4] };
    let mut panics = 0;
    for (no, oi) in reqs.into_iter().enumerate() {
        let buf_mode = dirty_buffer(r, &mut buf);
        let id = sc.objs[oi].id;
        let depth = pv.chain.get(&oi).map(|c| c.0).unwrap_or(0);
        let res = guard(|| {
            bundle
                .find(&id, &mut buf, &mut inflate, &mut spy)
                .map(|o| o.map(|(d, _loc)| (d.kind, d.data.len())))
                .map_err(|e| format!("{}: {e}", err_class(&e)))
        });
        let (hit, contract) = take_hit_class(&st);
        ctx.count(HIT_NAMES[hit as usize]);
        match res {
            Err(p) => {
                ctx.eval();
                ctx.panic_violation(
                    "decode",
                    &p,
                    cfg.impl_name(),
                    json!({"path": "bundle", "cache": format!("{cfg:?}"), "layout": sc.layout, "pack": pv.desc, "request_no": no, "id": id.to_string()}),
                );
                panics += 1;
                if panics > 8 {
                    break;
                }
                spy = new_cache(&st);
                inflate = Default::default();
            }
            Ok(got) => {
                let want = &sc.objs[oi];
                let plain = || {
                    let mut b = Vec::new();
                    let mut infl = gix_features::zlib::Inflate::default();
                    matches!(bundle.find(&id, &mut b, &mut infl, &mut cache::Never), Ok(Some((d, _))) if d.kind == want.kind && d.data == want.data.as_slice())
                };
                judge.check(ctx, no, oi, depth, got, &buf, hit, buf_mode, &plain)
            }
        }
        if let Some(c) = contract {
            ctx.violation(
                &format!("cache-contract|{}", cfg.impl_name()),
                &c,
                json!({"path": "bundle", "cache": format!("{cfg:?}"), "layout": sc.layout, "request_no": no, "id": id.to_string()}),
            );
        }
    }
    let s = lock(&st);
    ctx.count_n("delta_cache_hits", s.hits);
    ctx.count_n("delta_cache_misses", s.misses);
    ctx.count_n("delta_cache_puts", s.puts);
    if let Some(m) = s.min_put {
        let prev = ctx.extra.get("smallest_entry_put_into_delta_cache_bytes").and_then(|v| v.as_u64()).unwrap_or(u64::MAX);
        if (m as u64) < prev {
            ctx.note("smallest_entry_put_into_delta_cache_bytes", json!(m));
        }
    }
}

fn run_odb(ctx: &mut Ctx, r: &mut Rng, sc: &Scenario, cfg: PackCacheCfg, ocfg: ObjCacheCfg, n_req: usize) {
    let st: Shared = Default::default();
    let open = |st: &Shared| -> Result<gix_odb::Handle, String> {
        {
            let mut s = lock(st);
            s.model.clear();
            s.obj_model.clear();
        }
        let mut h = gix_odb::at(sc.objects_dir.clone()).map_err(|e| e.to_string())?;
        let st2 = st.clone();
        h.set_pack_cache(move || Box::new(Spy { inner: cfg.make(), st: st2.clone() }));
        if ocfg != ObjCacheCfg::None {
            let st3 = st.clone();
            h.set_object_cache(move || Box::new(ObjSpy { inner: ocfg.make().expect("some"), st: st3.clone() }));
        }
        Ok(h)
    };
    let mut handle = match open(&st) {
        Ok(h) => h,
        Err(e) => {
            ctx.inconclusive(&format!("gix_odb::at failed: {e}"));
            return;
        }
    };
    let views: Vec<&PackView> = sc.packs.iter().collect();
    let twins = sc.twins.map(|(a, b)| (&sc.packs[a], &sc.packs[b]));
    let reqs = gen_requests(r, &views, twins, n_req);
    let mut buf = Vec::new();
    let class = format!("{}+{}", cfg.class(), ocfg.class());
    // attribution used in signatures: the delta cache implementation, or the object cache if there is no delta cache
    let imp = if cfg == PackCacheCfg::Never && ocfg != ObjCacheCfg::None { "objcache".to_string() } else { cfg.impl_name().to_string() };
    let mut judge = Judge { path: "odb", cfg_impl: imp.clone(), cfg_class: class.clone(), sc, last: [9; 4] };
    let mut panics = 0;
    for (no, oi) in reqs.into_iter().enumerate() {
        let buf_mode = dirty_buffer(r, &mut buf);
        let id = sc.objs[oi].id;
        let depth = sc.packs.iter().filter_map(|p| p.chain.get(&oi)).map(|c| c.0).max().unwrap_or(0);
        let res = guard(|| {
            gix_object::Find::try_find(&handle, &id, &mut buf)
                .map(|o| o.map(|d| (d.kind, d.data.len())))
                .map_err(|e| format!("{}: {e}", err_class(&e)))
        });
        let (hit, contract) = take_hit_class(&st);
        ctx.count(HIT_NAMES[hit as usize]);
        match res {
            Err(p) => {
                ctx.eval();
                ctx.panic_violation(
                    "decode",
                    &p,
                    &imp,
                    json!({"path": "odb", "cache": format!("{cfg:?}+{ocfg:?}"), "layout": sc.layout, "request_no": no, "id": id.to_string()}),
                );
                panics += 1;
                if panics > 8 {
                    break;
                }
                match open(&st) {
                    Ok(h) => handle = h,
                    Err(_) => break,
                }
            }
            Ok(got) => {
                let want = &sc.objs[oi];
                let plain = || {
                    let mut b = Vec::new();
                    match gix_odb::at(sc.objects_dir.clone()) {
                        Ok(h) => matches!(gix_object::Find::try_find(&h, &id, &mut b), Ok(Some(d)) if d.kind == want.kind && d.data == want.data.as_slice()),
                        Err(_) => false,
                    }
                };
                judge.check(ctx, no, oi, depth, got, &buf, hit, buf_mode, &plain)
            }
        }
        if let Some(c) = contract {
            ctx.violation(
                &format!("cache-contract|{imp}"),
                &c,
                json!({"path": "odb", "cache": format!("{cfg:?}+{ocfg:?}"), "layout": sc.layout, "request_no": no, "id": id.to_string()}),
            );
        }
    }
    let s = lock(&st);
    ctx.count_n("delta_cache_hits", s.hits);
    ctx.count_n("delta_cache_misses", s.misses);
    ctx.count_n("delta_cache_puts", s.puts);
    if let Some(m) = s.min_put {
        let prev = ctx.extra.get("smallest_entry_put_into_delta_cache_bytes").and_then(|v| v.as_u64()).unwrap_or(u64::MAX);
        if (m as u64) < prev {
            ctx.note("smallest_entry_put_into_delta_cache_bytes", json!(m));
        }
    }
    ctx.count_n("object_cache_hits", s.obj_hits);
    ctx.count_n("object_cache_misses", s.obj_misses);
}

pub fn run(ctx: &mut Ctx) {
    ctx.rule(
        "case = one scenario: random repository (repogen with delta fodder + an edit chain of one file) packed by git \
         (pack-objects with depth {1,5,50,250} x window {0,10,250}, OFS or REF deltas, reuse or recompute deltas, index v1/v2/v2 with 64-bit \
         offsets, zlib level, 1..3 packs, or base pack + thin pack completed by index-pack --fix-thin, optional multi-pack-index); every \
         delta-cache configuration runs a request sequence through Bundle::find and a sample of (delta cache x object cache) pairs through \
         gix_odb Handle::try_find; each request is compared with git cat-file --batch (kind and bytes). distinct = (entry path, cache \
         impl + capacity class, delta depth bucket of the requested object, cache participation of the last 4 requests: none / entry \
         cached / base cached mid-chain / full miss / object-cache hit)",
    );
    ctx.assume("git 2.39.5 cat-file/verify-pack describe the packs correctly; the id -> bytes table is additionally validated with an independent SHA-1");
    let n = ctx.n(20, 500);
    let n_req = ctx.n(250, 400) as usize;
    let n_bundle_cfgs = 24usize;
    let n_odb_cfgs = ctx.n(10, 14) as usize;
    ctx.cases("scenario", n, |ctx, r| {
        let root = ctx.dir("scenario");
        let t0 = ctx.elapsed();
        let sc = match build_scenario(ctx, r, &root) {
            Ok(s) => s,
            Err(e) => {
                ctx.count("scenario_setup_failed");
                ctx.inconclusive(&format!("scenario setup: {}", e.chars().take(160).collect::<String>()));
                return;
            }
        };
        ctx.count("scenarios");
        let t1 = ctx.elapsed();
        ctx.count_n("ms_setup_git", ((t1 - t0) * 1000.0) as u64);
        ctx.count_n("packs", sc.packs.len() as u64);
        ctx.count_n("objects", sc.objs.len() as u64);
        let md = sc.packs.iter().map(|p| p.max_depth).max().unwrap_or(0);
        let prev = ctx.counter("max_delta_depth_seen");
        if (md as u64) > prev {
            ctx.count_n("max_delta_depth_seen", md as u64 - prev);
        }
        ctx.count(&format!("scenario_depth_bucket_{}", depth_bucket(md)));
        let cfgs = PackCacheCfg::all(r);
        let mut pick = cfgs.clone();
        r.shuffle(&mut pick);
        pick.truncate(n_bundle_cfgs);
        for cfg in &pick {
            if !ctx.time_left() {
                return;
            }
            run_bundle(ctx, r, &sc, *cfg, n_req);
            ctx.count("bundle_runs");
            ctx.count(&format!("cfg_{}", cfg.class()));
        }
        let t2 = ctx.elapsed();
        ctx.count_n("ms_bundle_runs", ((t2 - t1) * 1000.0) as u64);
        let ocaps = [ObjCacheCfg::None, ObjCacheCfg::MemCapped(1), ObjCacheCfg::MemCapped(64), ObjCacheCfg::MemCapped(10_000), ObjCacheCfg::MemCapped(10_000_000)];
        for _ in 0..n_odb_cfgs {
            if !ctx.time_left() {
                return;
            }
            let cfg = *r.pick(&cfgs);
            let ocfg = *r.pick(&ocaps);
            run_odb(ctx, r, &sc, cfg, ocfg, n_req);
            ctx.count("odb_runs");
            ctx.count(&format!("cfg_odb_{}", ocfg.class()));
        }
        ctx.count_n("ms_odb_runs", ((ctx.elapsed() - t2) * 1000.0) as u64);
    });
}
