//! C37 Ignore decisions agree with `git check-ignore`.
//!
//! Oracle G: a generated worktree (files and directories really exist) with `.gitignore` files at several levels,
//! `.git/info/exclude` and `core.excludesFile`, with or without `core.ignoreCase`; every file, every directory and some
//! non-existing paths are asked with ONE `git check-ignore -v -n -z --stdin --no-index`. gitoxide's answer comes from
//! `gix::Repository::excludes()` -> `Stack::at_entry(path, mode).matching_exclude_pattern()` (mode from the disk like
//! `gix exclude query` does). Compared: matched at all, negative or not (= is the path ignored), source file and line.
//! A second gitoxide pass with `Source::IdMapping` (ignore files read from the index/odb after `git add`) must give the
//! same answers as git gave for the same files on disk. Oracle R: the answers must not depend on the order of queries
//! made through one stack.
use crate::fw::{git, guard, show, Ctx, Rng};
use bstr::ByteSlice;
use serde_json::json;
use std::collections::{BTreeMap, BTreeSet};
use std::path::{Path, PathBuf};

pub fn child(_mode: &str) {}

const KINDS: [&str; 3] = ["file", "dir", "missing"];
const NAMES: &[&str] = &[
    "a", "b", "ab", "A", "B", "a.o", "b.o", "x.txt", "build", "src", "lib", "Makefile", "#h", "!n", "t s", "[x]", "a.O", "Build", "c", "d", "ab.c", "foo", "bar", "st*r", "q?", "b\\s", "sp ", "-d", "a!",
];

#[derive(Clone, Debug, PartialEq, Eq)]
struct Answer {
    /// source file (worktree relative or as configured), line, negative
    hit: Option<(String, usize, bool)>,
    pattern: String,
}
impl Answer {
    fn ignored(&self) -> bool {
        matches!(self.hit, Some((_, _, false)))
    }
    fn brief(&self) -> String {
        match &self.hit {
            None => "no match".into(),
            Some((s, l, n)) => format!("{}:{}:{}{}", s, l, self.pattern, if *n { " (negative)" } else { "" }),
        }
    }
}

struct Scenario {
    root: PathBuf,
    files: Vec<String>,
    dirs: Vec<String>,
    /// (display name relative to root or absolute, content)
    ignore_files: Vec<(String, Vec<u8>)>,
    icase: bool,
    excludes_file: Option<PathBuf>,
    features: u32,
}

const PF_NEG: u32 = 1;
const PF_DIRONLY: u32 = 2;
const PF_ANCHORED: u32 = 4;
const PF_MIDSLASH: u32 = 8;
const PF_STAR: u32 = 16;
const PF_STARSTAR: u32 = 32;
const PF_BRACKET: u32 = 64;
const PF_ESCAPE: u32 = 128;
const PF_TRAILSPACE: u32 = 256;
const PF_CRLF: u32 = 512;
const PF_QUEST: u32 = 1024;

fn line_features(line: &[u8]) -> u32 {
    let mut f = 0;
    let mut l = line;
    if l.first() == Some(&b'!') {
        f |= PF_NEG;
        l = &l[1..];
    }
    if l.ends_with(b" ") {
        f |= PF_TRAILSPACE;
    }
    let t = l.trim_end_with(|c| c == ' ');
    if t.ends_with(b"/") {
        f |= PF_DIRONLY;
    }
    if t.first() == Some(&b'/') {
        f |= PF_ANCHORED;
    }
    let inner = t.strip_prefix(b"/").unwrap_or(t);
    let inner = inner.strip_suffix(b"/").unwrap_or(inner);
    if inner.contains(&b'/') {
        f |= PF_MIDSLASH;
    }
    if inner.contains_str("**") {
        f |= PF_STARSTAR;
    } else if inner.contains(&b'*') {
        f |= PF_STAR;
    }
    if inner.contains(&b'[') {
        f |= PF_BRACKET;
    }
    if inner.contains(&b'\\') {
        f |= PF_ESCAPE;
    }
    if inner.contains(&b'?') {
        f |= PF_QUEST;
    }
    f
}

fn feature_names(f: u32) -> String {
    let names = [
        (PF_NEG, "neg"),
        (PF_DIRONLY, "dironly"),
        (PF_ANCHORED, "anchored"),
        (PF_MIDSLASH, "midslash"),
        (PF_STAR, "star"),
        (PF_STARSTAR, "starstar"),
        (PF_BRACKET, "bracket"),
        (PF_ESCAPE, "escape"),
        (PF_TRAILSPACE, "trailspace"),
        (PF_CRLF, "crlf"),
        (PF_QUEST, "quest"),
    ];
    let v: Vec<&str> = names.iter().filter(|(b, _)| f & b != 0).map(|(_, n)| *n).collect();
    if v.is_empty() {
        "plain".into()
    } else {
        v.join("+")
    }
}

fn flip_case(r: &mut Rng, s: &str) -> String {
    s.chars().map(|c| if c.is_ascii_alphabetic() && r.chance(1, 2) { ((c as u8) ^ 0x20) as char } else { c }).collect()
}

fn escape_glob(s: &str) -> String {
    let mut o = String::new();
    for c in s.chars() {
        if matches!(c, '*' | '?' | '[' | '\\') {
            o.push('\\');
        }
        o.push(c);
    }
    o
}

/// one ignore line for a file living in `dir` ("" = root); `below` are paths relative to that dir
fn gen_line(r: &mut Rng, below: &[String], icase: bool) -> Vec<u8> {
    match r.below(40) {
        0 => return b"# comment".to_vec(),
        1 => return Vec::new(),
        2 => return b"   ".to_vec(),
        3 => return r.pick(&[b"!" as &[u8], b"/", b"\\", b"*", b"**", b"!*", b"*/", b"/*", b"**/", b"/**", b"!/", b"\\ ", b"?", b"#", b"\\#", b"!!"]).to_vec(),
        _ => {}
    }
    let target: String = if !below.is_empty() && r.chance(4, 5) { r.pick(below).clone() } else { r.pick(NAMES).to_string() };
    let comps: Vec<&str> = target.split('/').collect();
    let base = *comps.last().unwrap();
    let first = comps[0];
    let quote = |s: &str, r: &mut Rng| if r.chance(9, 10) { escape_glob(s) } else { s.to_string() };
    let mut line: String = match r.below(16) {
        0 | 1 => quote(base, r),
        2 => format!("/{}", quote(first, r)),
        3 | 4 => quote(&target, r),
        5 => {
            if comps.len() > 1 {
                format!("{}/", quote(&comps[..comps.len() - 1].join("/"), r))
            } else {
                format!("{}/", quote(base, r))
            }
        }
        6 => format!("{}/", quote(base, r)),
        7 => match base.rfind('.') {
            Some(p) if p > 0 => format!("*{}", &base[p..]),
            _ => format!("{}*", &base[..1]),
        },
        8 => format!("**/{}", quote(base, r)),
        9 => format!("{}/**", quote(first, r)),
        10 => format!("{}/**/{}", quote(first, r), quote(base, r)),
        11 => {
            // generalise single characters
            let mut s = String::new();
            for c in target.chars() {
                match r.below(8) {
                    0 if c != '/' => s.push('?'),
                    1 if c != '/' => s.push('*'),
                    2 if c.is_ascii_alphanumeric() => s.push_str(&format!("[{}]", c)),
                    3 if c.is_ascii_alphabetic() => s.push_str(&format!("[{}-{}]", c, ((c as u8) + 1) as char)),
                    4 if c != '/' => s.push_str(&format!("\\{}", c)),
                    5 if c != '/' => s.push_str(&format!("[!{}]", if c == 'z' { 'y' } else { 'z' })),
                    _ => s.push_str(&escape_glob(&c.to_string())),
                }
            }
            s
        }
        12 => "*".to_string(),
        13 => format!("{}*", &first[..1]),
        14 => {
            // the `x**/y` shape
            if comps.len() > 1 {
                format!("{}**/{}", &first[..1], quote(base, r))
            } else {
                format!("{}**", &base[..1])
            }
        }
        _ => {
            if comps.len() > 1 {
                format!("*/{}", quote(base, r))
            } else {
                format!("{}/*", quote(base, r))
            }
        }
    };
    if icase && r.chance(1, 3) || r.chance(1, 20) {
        line = flip_case(r, &line);
    }
    if icase {
        // C36 territory: under case folding git does not fold escaped letters and letters inside brackets, gitoxide does.
        // Those shapes are kept lower-case here so that this monitor judges the ignore logic, not wildmatch itself.
        let mut out = String::new();
        let mut in_bracket = false;
        let mut escaped = false;
        for c in line.chars() {
            let c2 = if escaped || in_bracket { c.to_ascii_lowercase() } else { c };
            if escaped {
                escaped = false;
            } else if c == '\\' {
                escaped = true;
            } else if c == '[' {
                in_bracket = true;
            } else if c == ']' {
                in_bracket = false;
            }
            out.push(c2);
        }
        line = out;
    }
    if r.chance(1, 10) && !line.starts_with('/') {
        line.insert(0, '/');
    }
    if r.chance(1, 8) && !line.ends_with('/') {
        line.push('/');
    }
    // a name that starts with '#' or '!' must be escaped to be a pattern at all
    if line.starts_with('#') || line.starts_with('!') {
        if r.chance(9, 10) {
            line.insert(0, '\\');
        }
    }
    if r.chance(3, 10) {
        line.insert(0, '!');
    }
    if r.chance(1, 20) {
        line.push_str(*r.pick(&[" ", "  ", "\\ ", "\\  ", " \\ "]));
    }
    if line.starts_with('$') || line.starts_with("!$") || line.starts_with("\\$") {
        line.insert(0, 'x');
    }
    line.into_bytes()
}

fn gen_ignore_file(r: &mut Rng, below: &[String], icase: bool, features: &mut u32) -> Vec<u8> {
    let n = 1 + r.usize(6);
    let crlf = r.chance(1, 10);
    if crlf {
        *features |= PF_CRLF;
    }
    let mut out = Vec::new();
    if r.chance(1, 30) {
        out.extend_from_slice(b"\xef\xbb\xbf");
    }
    for i in 0..n {
        let l = gen_line(r, below, icase);
        *features |= line_features(&l);
        out.extend_from_slice(&l);
        let last = i + 1 == n;
        if last && r.chance(1, 6) {
            // no final newline
            if crlf && r.chance(1, 3) {
                out.push(b'\r');
            }
        } else {
            out.extend_from_slice(if crlf { b"\r\n" } else { b"\n" });
        }
    }
    out
}

/// write the worktree: a minimal repository (no `git init` spawn), directories, empty files, ignore files, config
fn materialize(ctx: &mut Ctx, files: Vec<String>, dirs: Vec<String>, mut ignore_files: Vec<(String, Vec<u8>)>, icase: bool, features: u32) -> Result<Scenario, String> {
    let root = ctx.dir("ignore-wt");
    let gd = root.join(".git");
    for d in ["objects/info", "objects/pack", "refs/heads", "refs/tags", "info"] {
        std::fs::create_dir_all(gd.join(d)).map_err(|e| e.to_string())?;
    }
    std::fs::write(gd.join("HEAD"), "ref: refs/heads/main\n").map_err(|e| e.to_string())?;
    for d in &dirs {
        std::fs::create_dir_all(root.join(d)).map_err(|e| format!("mkdir {d}: {e}"))?;
    }
    for f in &files {
        std::fs::write(root.join(f), b"").map_err(|e| format!("write {f}: {e}"))?;
    }
    let mut excludes_file = None;
    for (name, _) in ignore_files.iter_mut() {
        if name == "<core.excludesFile>" {
            let p = ctx.dir("ignore-global").join("global-excludes");
            *name = p.display().to_string();
            excludes_file = Some(p);
        }
    }
    for (name, content) in &ignore_files {
        let p = if name.starts_with('/') { PathBuf::from(name) } else { root.join(name) };
        std::fs::write(&p, content).map_err(|e| format!("write {name}: {e}"))?;
    }
    let mut config = String::from("[core]\n\trepositoryformatversion = 0\n\tfilemode = true\n\tbare = false\n");
    if icase {
        config.push_str("\tignoreCase = true\n");
    }
    if let Some(p) = &excludes_file {
        config.push_str(&format!("\texcludesFile = {}\n", p.display()));
    }
    std::fs::write(gd.join("config"), config).map_err(|e| e.to_string())?;
    Ok(Scenario { root, files, dirs, ignore_files, icase, excludes_file, features })
}

fn make_scenario(ctx: &mut Ctx, r: &mut Rng) -> Result<Scenario, String> {
    let icase = r.chance(2, 5);
    let mut files: BTreeSet<String> = BTreeSet::new();
    let mut dirs: BTreeSet<String> = BTreeSet::new();
    let nfiles = 5 + r.usize(36);
    // a few directory spines so that depth is reached
    let mut tries = 0;
    while files.len() < nfiles && tries < 400 {
        tries += 1;
        let depth = 1 + r.usize(4);
        let mut comps: Vec<String> = Vec::new();
        // reuse an existing directory as prefix quite often
        if !dirs.is_empty() && r.chance(1, 2) {
            let d = dirs.iter().nth(r.usize(dirs.len())).unwrap().clone();
            comps = d.split('/').map(|s| s.to_string()).collect();
        }
        while comps.len() < depth {
            comps.push(r.pick(NAMES).to_string());
        }
        comps.truncate(4);
        let path = comps.join("/");
        if files.contains(&path) || dirs.contains(&path) {
            continue;
        }
        let mut ok = true;
        let mut pre = String::new();
        let mut new_dirs = Vec::new();
        for c in &comps[..comps.len() - 1] {
            if !pre.is_empty() {
                pre.push('/');
            }
            pre.push_str(c);
            if files.contains(&pre) {
                ok = false;
                break;
            }
            new_dirs.push(pre.clone());
        }
        if !ok {
            continue;
        }
        // an empty directory now and then
        if r.chance(1, 12) {
            new_dirs.push(path.clone());
        } else {
            files.insert(path);
        }
        for d in new_dirs {
            dirs.insert(d);
        }
    }
    let all: Vec<String> = files.iter().chain(dirs.iter()).cloned().collect();
    let below = |dir: &str| -> Vec<String> {
        if dir.is_empty() {
            all.clone()
        } else {
            let p = format!("{dir}/");
            all.iter().filter_map(|x| x.strip_prefix(&p).map(|s| s.to_string())).collect()
        }
    };
    let mut features = 0u32;
    let mut ignore_files: Vec<(String, Vec<u8>)> = Vec::new();
    if r.chance(4, 5) {
        let c = gen_ignore_file(r, &below(""), icase, &mut features);
        ignore_files.push((".gitignore".into(), c));
    }
    for d in &dirs {
        if r.chance(1, 3) {
            let c = gen_ignore_file(r, &below(d), icase, &mut features);
            ignore_files.push((format!("{d}/.gitignore"), c));
        }
    }
    if r.chance(2, 5) {
        let c = gen_ignore_file(r, &below(""), icase, &mut features);
        ignore_files.push((".git/info/exclude".into(), c));
    }
    if r.chance(3, 10) {
        let c = gen_ignore_file(r, &below(""), icase, &mut features);
        ignore_files.push(("<core.excludesFile>".into(), c));
    }
    materialize(ctx, files.into_iter().collect(), dirs.into_iter().collect(), ignore_files, icase, features)
}

/// Hand-written worktrees that exercise every deviation class seen so far, so that each of them is reported by every run
fn directed_scenarios() -> Vec<(Vec<&'static str>, Vec<(&'static str, &'static [u8])>)> {
    vec![
        (
            vec!["a/b/c", "a/b/d/e", "k/f", "c1/keep.o", "c2/x.o", "s1/abx/q/z", "s2/abx/q/z", "plain/x", "n/deep/er/file"],
            vec![
                // a directory is excluded, something below it is re-included / matched by another pattern
                (".gitignore", b"a/\n!a/b/\nd\n!k/\nn/deep/\n!file\n" as &[u8]),
                // last line without newline but with a carriage return
                ("c1/.gitignore", b"*.o\n!keep.o\r"),
                ("c2/.gitignore", b"*.o\n*.o\r"),
                // `**` right after a literal prefix
                ("s1/.gitignore", b"ab**/z\n"),
                ("s2/.gitignore", b"z\nab**/z\n"),
            ],
        ),
        (
            // a global pattern that matches the empty path (the worktree root)
            vec!["top", "other", "dir/file"],
            vec![(".git/info/exclude", b"*\n" as &[u8]), (".gitignore", b"!top\noth*\n")],
        ),
        (vec!["top", "dir/file"], vec![("<core.excludesFile>", b"!/\n" as &[u8]), (".gitignore", b"dir\n")]),
    ]
}

fn git_answers(sc: &Scenario, queries: &[String]) -> Result<Vec<Answer>, String> {
    let mut input = Vec::new();
    for q in queries {
        input.extend_from_slice(q.as_bytes());
        input.push(0);
    }
    let o = git::run_in(&sc.root, &["check-ignore", "-v", "-n", "-z", "--stdin", "--no-index"], &input).map_err(|e| e.to_string())?;
    // exit code 1 = none ignored
    if !(o.ok || o.code == Some(1)) {
        return Err(format!("check-ignore failed ({:?}): {}", o.code, o.err_text()));
    }
    let fields: Vec<&[u8]> = o.stdout.split(|&c| c == 0).collect();
    let mut out = Vec::new();
    let mut i = 0;
    while i + 3 < fields.len() {
        let (src, line, pat, path) = (fields[i], fields[i + 1], fields[i + 2], fields[i + 3]);
        i += 4;
        if path != queries[out.len()].as_bytes() {
            return Err(format!("check-ignore answered for {:?} where {:?} was expected", show(path), queries[out.len()]));
        }
        if src.is_empty() {
            out.push(Answer { hit: None, pattern: String::new() });
        } else {
            let line: usize = std::str::from_utf8(line).ok().and_then(|s| s.parse().ok()).ok_or("bad line number")?;
            let neg = pat.first() == Some(&b'!');
            out.push(Answer { hit: Some((String::from_utf8_lossy(src).to_string(), line, neg)), pattern: show(pat) });
        }
    }
    if out.len() != queries.len() {
        return Err(format!("check-ignore gave {} answers for {} queries: {}", out.len(), queries.len(), o.err_text()));
    }
    Ok(out)
}

fn norm_source(root: &Path, p: &Path) -> String {
    match p.strip_prefix(root) {
        Ok(rel) => rel.display().to_string(),
        Err(_) => p.display().to_string(),
    }
}

fn gix_answers(sc: &Scenario, queries: &[String], order: &[usize], from_index: bool) -> Result<Vec<Answer>, String> {
    use gix::worktree::stack::state::ignore::Source;
    let repo = gix::open_opts(&sc.root, gix::open::Options::isolated()).map_err(|e| format!("open: {e}"))?;
    let index = repo.index_or_empty().map_err(|e| format!("index: {e}"))?;
    let source = if from_index { Source::IdMapping } else { Source::WorktreeThenIdMappingIfNotSkipped };
    let mut stack = repo.excludes(&index, None, source).map_err(|e| format!("excludes: {e}"))?;
    let mut out: Vec<Option<Answer>> = vec![None; queries.len()];
    for &qi in order {
        let q = &queries[qi];
        let on_disk = sc.root.join(q);
        let mode = match on_disk.symlink_metadata() {
            Ok(m) if m.is_dir() => Some(gix::index::entry::Mode::DIR),
            Ok(_) => Some(gix::index::entry::Mode::FILE),
            Err(_) => None,
        };
        let platform = stack.at_entry(q.as_bytes().as_bstr(), mode).map_err(|e| format!("at_entry({q:?}): {e}"))?;
        let a = match platform.matching_exclude_pattern() {
            None => Answer { hit: None, pattern: String::new() },
            Some(m) => Answer {
                hit: Some((m.source.map(|p| norm_source(&sc.root, p)).unwrap_or_default(), m.sequence_number, m.pattern.is_negative())),
                pattern: m.pattern.to_string(),
            },
        };
        if platform.is_excluded() != a.ignored() {
            return Err("is_excluded() contradicts matching_exclude_pattern()".into());
        }
        out[qi] = Some(a);
    }
    Ok(out.into_iter().map(|a| a.expect("all asked")).collect())
}

/// the raw line `line` (1-based) of an ignore file of the scenario
fn raw_line(sc: &Scenario, src: &str, line: usize) -> Option<Vec<u8>> {
    let (_, content) = sc.ignore_files.iter().find(|(n, _)| n == src)?;
    let content = content.strip_prefix(b"\xef\xbb\xbf").unwrap_or(content);
    content.split(|&c| c == b'\n').nth(line.checked_sub(1)?).map(|l| l.to_vec())
}

fn is_last_line_with_lone_cr(sc: &Scenario, src: &str, line: usize) -> bool {
    let Some((_, content)) = sc.ignore_files.iter().find(|(n, _)| n == src) else { return false };
    content.ends_with(b"\r") && content.split(|&c| c == b'\n').count() == line
}

/// gitoxide's positive answer comes from a global file (read before the root is entered) and a pattern that matches the
/// empty path: `*`, `**`, `/`, `*/`, `/**/` ...
fn gix_hit_matches_worktree_root(sc: &Scenario, x: &Answer) -> bool {
    let Some((src, line, _)) = &x.hit else { return false };
    if !(src.starts_with('/') || src.starts_with(".git/")) {
        return false;
    }
    let Some(l) = raw_line(sc, src, *line) else { return false };
    is_root_matcher(&l)
}

fn is_root_matcher(l: &[u8]) -> bool {
    if l.starts_with(b"#") {
        return false;
    }
    let l = l.trim_end_with(|c| c == ' ' || c == '\r');
    let l = l.strip_prefix(b"!").unwrap_or(l);
    if l.is_empty() {
        return false;
    }
    let l = l.strip_prefix(b"/").unwrap_or(l);
    let l = l.strip_suffix(b"/").unwrap_or(l);
    l.iter().all(|c| *c == b'*')
}

/// all lines of the ignore files that can apply to `path` (global files and `.gitignore` of its ancestors); for "" the global ones
fn applicable_lines(sc: &Scenario, path: &str) -> Vec<Vec<u8>> {
    let mut out = Vec::new();
    for (name, content) in &sc.ignore_files {
        let applies = if name.starts_with('/') || name.starts_with(".git/") {
            true
        } else if path.is_empty() {
            false
        } else {
            match name.rfind('/') {
                None => true,
                Some(p) => is_ancestor(&name[..p], path),
            }
        };
        if applies {
            out.extend(content.split(|&c| c == b'\n').map(|l| l.to_vec()));
        }
    }
    out
}

/// classification aid only: does the pattern gitoxide reported match `path` itself (using gitoxide's own matcher)?
fn gix_hit_matches_path_itself(sc: &Scenario, x: &Answer, path: &str, is_dir: bool) -> bool {
    let Some((src, line, _)) = &x.hit else { return false };
    let Some(raw) = raw_line(sc, src, *line) else { return true };
    let Some((pattern, _, _)) = gix_ignore::parse(&raw).next() else { return true };
    let base = if src.starts_with('/') || src.starts_with(".git/") { "" } else { src.rfind('/').map_or("", |p| &src[..p]) };
    let rel = if base.is_empty() { path } else { &path[base.len() + 1..] };
    let case = if sc.icase { gix_glob::pattern::Case::Fold } else { gix_glob::pattern::Case::Sensitive };
    pattern.matches_repo_relative_path(
        rel.as_bytes().as_bstr(),
        rel.rfind('/').map(|p| p + 1),
        Some(is_dir),
        case,
        gix_glob::wildmatch::Mode::NO_MATCH_SLASH_LITERAL,
    )
}

/// `lit**/...` or `dir/lit**`: git cuts the wildcard-free prefix off before calling wildmatch, which then sees a leading `**`
fn starstar_after_literal_prefix(line: &[u8]) -> bool {
    let l = line.strip_prefix(b"!").unwrap_or(line);
    let l = l.strip_prefix(b"/").unwrap_or(l);
    let l = l.trim_end_with(|c| c == ' ' || c == '\r');
    if !l.contains(&b'/') && !line.strip_prefix(b"!").unwrap_or(line).starts_with(b"/") {
        return false; // basename patterns are matched without the path-name rule
    }
    let n = l.iter().position(|c| matches!(c, b'*' | b'?' | b'[' | b'\\')).unwrap_or(l.len());
    if n == 0 || l[n - 1] == b'/' || !l[n..].starts_with(b"**") {
        return false;
    }
    let rest = l[n..].trim_start_with(|c| c == '*');
    rest.is_empty() || rest.starts_with(b"/") || rest.starts_with(b"\\/")
}

/// is `anc` a proper ancestor directory of `path`
fn is_ancestor(anc: &str, path: &str) -> bool {
    path.len() > anc.len() + 1 && path.starts_with(anc) && path.as_bytes()[anc.len()] == b'/'
}

pub fn run(ctx: &mut Ctx) {
    ctx.rule(
        "case = one generated worktree (5..40 files, depth<=4, names incl. '#h' '!n' 't s' '[x]' 'st*r'), .gitignore at root/sub-directories, info/exclude, \
         core.excludesFile, core.ignoreCase on/off; lines derived from existing paths: basename, /anchored, with middle slash, dir/, !negated, *.ext, **/x, x/**, \
         a/**/b, x**/y, ?, [..], escapes, trailing spaces, comments, blank, CRLF, BOM; queries: every file, every directory (some with trailing slash), \
         non-existing and case-flipped paths. distinct = (feature set of the deciding line, depth of the query below the deciding file, file/dir/missing, icase, outcome)",
    );
    ctx.assume("ignore lines do not start with '$' (gitoxide's documented 'precious files' extension); no symlinks; queried paths are normalised (no './', '//', '..')");
    ctx.cases("directed", 1, |ctx, _r| {
        for (files, ignores) in directed_scenarios() {
            let files: Vec<String> = files.iter().map(|s| s.to_string()).collect();
            let mut dirs: BTreeSet<String> = BTreeSet::new();
            for f in &files {
                let mut p = f.as_str();
                while let Some(i) = p.rfind('/') {
                    p = &p[..i];
                    dirs.insert(p.to_string());
                }
            }
            let mut features = 0;
            for (_, c) in &ignores {
                for l in c.split(|&b| b == b'\n') {
                    features |= line_features(l.trim_end_with(|c| c == '\r'));
                }
            }
            let ignore_files = ignores.iter().map(|(n, c)| (n.to_string(), c.to_vec())).collect();
            let sc = match materialize(ctx, files.clone(), dirs.iter().cloned().collect(), ignore_files, false, features) {
                Ok(s) => s,
                Err(e) => {
                    ctx.inconclusive(&format!("scenario setup failed: {e}"));
                    return;
                }
            };
            ctx.count("directed_worktrees");
            // parents first in the first pass, children first in the second one
            let mut queries: Vec<String> = files.iter().chain(dirs.iter()).cloned().collect();
            queries.sort();
            let kind: Vec<u8> = queries.iter().map(|q| u8::from(dirs.contains(q))).collect();
            let mut in_order = |n: usize| (0..n).collect::<Vec<usize>>();
            check_scenario(ctx, &sc, queries, kind, &mut in_order, true);
        }
    });
    let n = ctx.n(60, 900);
    ctx.cases("worktree", n, |ctx, r| {
        let sc = match make_scenario(ctx, r) {
            Ok(s) => s,
            Err(e) => {
                ctx.inconclusive(&format!("scenario setup failed: {e}"));
                return;
            }
        };
        let mut r2 = r.fork();
        let with_index = r.chance(1, 4);
        // queries
        let mut queries: Vec<String> = Vec::new();
        let mut kind: Vec<u8> = Vec::new(); // 0 file 1 dir 2 missing
        for f in &sc.files {
            queries.push(f.clone());
            kind.push(0);
        }
        for d in &sc.dirs {
            queries.push(d.clone());
            kind.push(1);
        }
        let existing: BTreeSet<String> = sc.files.iter().chain(sc.dirs.iter()).cloned().collect();
        for _ in 0..(4 + r.usize(12)) {
            let base: String = if !sc.dirs.is_empty() && r.chance(2, 3) { { let di = r.usize(sc.dirs.len()); format!("{}/{}", sc.dirs[di], r.pick(NAMES)) } } else { r.pick(NAMES).to_string() };
            // only the last component is missing or differs in case: all ancestors exist as directories
            let q = if r.chance(1, 3) {
                match base.rfind('/') {
                    Some(p) => format!("{}/{}", &base[..p], flip_case(r, &base[p + 1..])),
                    None => flip_case(r, &base),
                }
            } else {
                base
            };
            if !existing.contains(&q) && !sc.root.join(&q).exists() && !queries.contains(&q) {
                queries.push(q);
                kind.push(2);
            }
        }
        for _ in 0..r.usize(6) {
            // case variants of existing paths (exist only if the name has no letters)
            let fi = r.usize(sc.files.len());
            let f = &sc.files[fi];
            let q = match f.rfind('/') {
                Some(p) => format!("{}/{}", &f[..p], flip_case(r, &f[p + 1..])),
                None => flip_case(r, f),
            };
            if !sc.root.join(&q).exists() && !queries.contains(&q) {
                queries.push(q);
                kind.push(2);
            }
        }
        let mut shuffle = |n: usize| {
            let mut o: Vec<usize> = (0..n).collect();
            r2.shuffle(&mut o);
            o
        };
        check_scenario(ctx, &sc, queries, kind, &mut shuffle, with_index);
    });
}

/// ask git and gitoxide (two orders, optionally once more with the ignore files taken from the index) and compare
fn check_scenario(ctx: &mut Ctx, sc: &Scenario, mut queries: Vec<String>, mut kind: Vec<u8>, order_of: &mut dyn FnMut(usize) -> Vec<usize>, with_index_pass: bool) {
    ctx.count("worktrees");
    ctx.count_n("ignore_files", sc.ignore_files.len() as u64);
    if sc.excludes_file.is_some() {
        ctx.count("with_core_excludesfile");
    }
    if sc.icase {
        ctx.count("with_ignorecase");
    }
    // every ancestor of a query is a query, too (needed to tell whether an answer is inherited from a directory)
    let mut i = 0;
    while i < queries.len() {
        let q = queries[i].clone();
        if let Some(p) = q.rfind('/') {
            let anc = q[..p].to_string();
            if !queries.contains(&anc) {
                kind.push(if sc.root.join(&anc).is_dir() { 1 } else { 2 });
                queries.push(anc);
            }
        }
        i += 1;
    }
    let queries_ref = &queries;
    let git_a = match git_answers(sc, queries_ref) {
        Ok(a) => a,
        Err(e) => {
            ctx.count("git_check_ignore_errors");
            ctx.inconclusive(&format!("git check-ignore unusable: {e}"));
            return;
        }
    };
    ctx.count("git_spawns");
    let order: Vec<usize> = order_of(queries.len());
    let witness_base = |sc: &Scenario| {
        json!({
            "ignore_files": sc.ignore_files.iter().map(|(n, c)| json!({"file": n, "content": show(c)})).collect::<Vec<_>>(),
            "files": sc.files, "dirs": sc.dirs, "ignorecase": sc.icase,
        })
    };
    let passes: Vec<(&str, bool, Vec<usize>)> = {
        let mut v = vec![("worktree", false, order.clone())];
        let mut o2 = order.clone();
        o2.reverse();
        v.push(("worktree-reordered", false, o2));
        v
    };
    let mut first_pass: Option<Vec<Answer>> = None;
    for (pass, from_index, ord) in passes {
        let sc_ref = sc;
        let q_ref = queries_ref;
        let res = guard(move || gix_answers(sc_ref, q_ref, &ord, from_index));
        let gix_a = match res {
            Err(pi) => {
                ctx.panic_violation("Stack::at_entry/matching_exclude_pattern", &pi, pass, witness_base(sc));
                return;
            }
            Ok(Err(e)) => {
                ctx.violation(&format!("ignore|error|{pass}"), &format!("gitoxide failed where git answered: {e}"), witness_base(sc));
                return;
            }
            Ok(Ok(a)) => a,
        };
        if let Some(first) = &first_pass {
            for (i, (a, b)) in first.iter().zip(gix_a.iter()).enumerate() {
                ctx.eval();
                if a != b {
                    let mut w = witness_base(sc);
                    w["query"] = json!(queries[i]);
                    w["first_order"] = json!(a.brief());
                    w["second_order"] = json!(b.brief());
                    ctx.violation("ignore|stack-order-dependence", &format!("the answer for {:?} depends on the order of queries: {} vs {}", queries[i], a.brief(), b.brief()), w);
                }
            }
            continue;
        }
        compare(ctx, sc, queries_ref, &kind, &git_a, &gix_a, pass, &witness_base(sc));
        first_pass = Some(gix_a);
    }
    // ignore files from the index
    if with_index_pass && !sc.ignore_files.iter().all(|(n, _)| n.starts_with(".git/") || n.starts_with('/')) {
        let tracked: Vec<&String> = sc.ignore_files.iter().map(|(n, _)| n).filter(|n| !n.starts_with(".git/") && !n.starts_with('/')).collect();
        let mut input = Vec::new();
        for t in &tracked {
            input.extend_from_slice(t.as_bytes());
            input.push(0);
        }
        match git::run_in(&sc.root, &["update-index", "--add", "-z", "--stdin"], &input) {
            Ok(o) if o.ok => {
                ctx.count("git_spawns");
                ctx.count("worktrees_with_index_pass");
                let sc_ref = sc;
                let q_ref = queries_ref;
                let ord = order.clone();
                match guard(move || gix_answers(sc_ref, q_ref, &ord, true)) {
                    Err(pi) => ctx.panic_violation("Stack::at_entry/matching_exclude_pattern", &pi, "index", witness_base(sc)),
                    Ok(Err(e)) => ctx.violation("ignore|error|index", &format!("gitoxide (ignore files from the index) failed where git answered: {e}"), witness_base(sc)),
                    Ok(Ok(a)) => compare(ctx, sc, queries_ref, &kind, &git_a, &a, "index", &witness_base(sc)),
                }
            }
            Ok(o) => ctx.inconclusive(&format!("git update-index --add failed: {}", o.err_text())),
            Err(e) => ctx.inconclusive(&format!("git spawn failed: {e}")),
        }
    }
}

#[allow(clippy::too_many_arguments)]
fn compare(ctx: &mut Ctx, sc: &Scenario, queries: &[String], kind: &[u8], git_a: &[Answer], gix_a: &[Answer], pass: &str, base: &serde_json::Value) {
    let by_query: BTreeMap<&str, usize> = queries.iter().enumerate().map(|(i, q)| (q.trim_end_matches('/'), i)).collect();
    for (i, q) in queries.iter().enumerate() {
        ctx.eval();
        ctx.count("comparisons");
        let (g, x) = (&git_a[i], &gix_a[i]);
        let qn = q.trim_end_matches('/');
        // the deciding line (git's, else gitoxide's)
        let deciding = g.hit.as_ref().or(x.hit.as_ref());
        let (lf, rel_depth) = match deciding {
            Some((src, line, _)) => {
                let lf = raw_line(sc, src, *line).map(|l| line_features(l.trim_end_with(|c| c == '\r'))).unwrap_or(0);
                let src_dir_depth = if src.starts_with('/') || src.starts_with(".git/") { 0 } else { src.matches('/').count() };
                (lf, (qn.matches('/').count() + 1).saturating_sub(src_dir_depth))
            }
            None => (0, 0),
        };
        // does git's answer come from an excluded parent directory?
        let inherited = g.hit.is_some()
            && by_query.iter().any(|(other, &oi)| is_ancestor(other, qn) && git_a[oi].hit == g.hit && git_a[oi].ignored());
        if g.ignored() {
            ctx.count("git_says_ignored");
        } else if g.hit.is_some() {
            ctx.count("git_says_negated");
        }
        if inherited {
            ctx.count("git_answer_inherited_from_excluded_parent");
        }
        let outcome = match &g.hit {
            None => 0,
            Some((_, _, false)) => 1,
            Some((_, _, true)) => 2,
        };
        ctx.distinct((lf, rel_depth.min(4), kind[i], sc.icase, outcome, inherited, pass == "index"));
        if g.hit == x.hit {
            if ctx.want_sample() && g.hit.is_some() {
                ctx.sample(json!({"query": q, "kind": KINDS[kind[i] as usize], "ignorecase": sc.icase, "both": g.brief(), "pass": pass}));
            }
            continue;
        }
        let class = if g.ignored() != x.ignored() { "verdict" } else { "pattern" };
        let detail = format!("git-{}|gix-{}", ["nomatch", "ignored", "negated"][outcome], match &x.hit {
            None => "nomatch",
            Some((_, _, false)) => "ignored",
            Some((_, _, true)) => "negated",
        });
        // gitoxide's answer is the one it gives for an ancestor directory
        let gix_from_ancestor = x.hit.is_some() && by_query.iter().any(|(other, &oi)| is_ancestor(other, qn) && gix_a[oi].hit == x.hit);
        let lines: Vec<(Vec<u8>, bool)> = [g, x]
            .iter()
            .filter_map(|a| a.hit.as_ref())
            .filter_map(|(src, line, _)| raw_line(sc, src, *line).map(|l| (l, is_last_line_with_lone_cr(sc, src, *line))))
            .collect();
        let cause: String = if inherited && class == "pattern" && x.ignored() {
            // both say "ignored", git names the pattern of the excluded parent directory
            "other-pattern-reported-below-excluded-directory".into()
        } else if lines.iter().any(|(_, lone_cr)| *lone_cr) {
            "final-line-ends-with-lone-cr".into()
        } else if lines.iter().any(|(l, _)| starstar_after_literal_prefix(l)) {
            "starstar-right-after-literal-prefix".into()
        } else if inherited && class == "verdict" {
            "re-inclusion-below-excluded-directory".into()
        } else if inherited {
            "other-pattern-reported-below-excluded-directory".into()
        } else if g.hit.is_none()
            && matches!(x.hit, Some((_, _, true)))
            && (gix_from_ancestor || (qn.contains('/') && kind[i] != 1 && lines.iter().any(|(l, _)| l.trim_end_with(|c| c == ' ' || c == '\r').ends_with(b"/"))))
        {
            "negative-match-of-parent-directory-reported".into()
        } else if gix_hit_matches_worktree_root(sc, x) {
            "worktree-root-matched-as-excluded-directory".into()
        } else if g.hit.is_none() && matches!(x.hit, Some((_, _, true))) && qn.contains('/') && !gix_hit_matches_path_itself(sc, x, qn, kind[i] == 1) {
            // the negative pattern does not match the path itself: it is the match of a parent directory
            "negative-match-of-parent-directory-reported".into()
        } else if applicable_lines(sc, qn).iter().any(|l| starstar_after_literal_prefix(l)) {
            // not the deciding line, but one that decides about a parent directory
            "starstar-right-after-literal-prefix".into()
        } else if applicable_lines(sc, "").iter().any(|l| is_root_matcher(l)) {
            "worktree-root-matched-as-excluded-directory".into()
        } else {
            format!("unexplained|{detail}|{}", feature_names(lf | (sc.features & PF_CRLF)))
        };
        let mut w = base.clone();
        w["query"] = json!(q);
        w["query_kind"] = json!(KINDS[kind[i] as usize]);
        w["git"] = json!(g.brief());
        w["gix"] = json!(x.brief());
        w["pass"] = json!(pass);
        w["git_answer_inherited_from_excluded_parent"] = json!(inherited);
        let sig = format!("ignore|{class}|{cause}");
        if std::env::var("GXV_C37_DUMP").is_ok() {
            eprintln!("DUMP {sig}\t{q}\t{}\tgit={}\tgix={}\ticase={}", KINDS[kind[i] as usize], g.brief(), x.brief(), sc.icase);
        }
        ctx.violation(&sig, &format!("{:?} ({}): git check-ignore says {}, gitoxide says {}", q, KINDS[kind[i] as usize], g.brief(), x.brief()), w);
    }
}
