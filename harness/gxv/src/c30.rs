//! C30 Ref advertisements are understood exactly.
//!
//! Workload: random bare server repositories (fast-import DAG + branches, lightweight/annotated/nested
//! tags, tags of trees and blobs, symbolic refs and chains, dangling symrefs, HEAD attached / via chain /
//! at an annotated tag / detached / unborn, empty repository, packed refs, uploadpack.hideRefs), served by
//! the real `git-upload-pack` spawned by gitoxide's `file://` transport under protocol.version 0, 1 and 2.
//!
//! Observed: (A) `Remote::connect(Fetch)?.ref_map()` `remote_refs` with and without ref-prefix filtering,
//!           (B) `gix_protocol::fetch::handshake` (+ `ls_refs` with own `ref-prefix` arguments under v2).
//! Oracle: a model computed from server-side `git for-each-ref`, `cat-file --batch-check '<oid>^{}'`,
//! `symbolic-ref HEAD`, `rev-parse HEAD`. v0/v1 carry a symbolic target only for HEAD, v2 for every
//! symbolic ref and for an unborn HEAD. The model itself is cross-checked against `git ls-remote --symref`
//! under the same protocol; if those two disagree the case is skipped (never a violation).
use crate::fw::{git, guard, repogen, Ctx, Rng};
use gix_protocol::handshake::Ref;
use serde_json::json;
use std::collections::{BTreeMap, BTreeSet};
use std::path::{Path, PathBuf};

pub fn child(_mode: &str) {}

fn hermetic_env() {
    // gitoxide spawns `git-upload-pack` with the environment of this process.
    let drop: Vec<String> = std::env::vars_os()
        .filter_map(|(k, _)| k.into_string().ok())
        .filter(|k| k.starts_with("GIT_") || k.starts_with("GIX_") || k == "XDG_CONFIG_HOME")
        .collect();
    for k in drop {
        std::env::remove_var(k);
    }
    let _ = std::fs::create_dir_all("/dev/shm/gxv-home");
    std::env::set_var("HOME", "/dev/shm/gxv-home");
    std::env::set_var("PATH", "/usr/bin:/bin");
    std::env::set_var("GIT_CONFIG_NOSYSTEM", "1");
    std::env::set_var("GIT_CONFIG_GLOBAL", "/dev/null");
    std::env::set_var("GIT_TERMINAL_PROMPT", "0");
    std::env::set_var("LC_ALL", "C");
    std::env::set_var("TZ", "UTC");
}

// ------------------------------------------------------------------ model

/// normalized advertised ref
#[derive(Clone, Debug, PartialEq, Eq, PartialOrd, Ord, Hash)]
enum AdRef {
    Direct { name: String, oid: String },
    Peeled { name: String, tag: String, object: String },
    Symbolic { name: String, target: String, tag: Option<String>, object: String },
    Unborn { name: String, target: String },
}

impl AdRef {
    fn name(&self) -> &str {
        match self {
            AdRef::Direct { name, .. } | AdRef::Peeled { name, .. } | AdRef::Symbolic { name, .. } | AdRef::Unborn { name, .. } => name,
        }
    }
    fn kind(&self) -> &'static str {
        match self {
            AdRef::Direct { .. } => "direct",
            AdRef::Peeled { .. } => "peeled",
            AdRef::Symbolic { tag: None, .. } => "symbolic",
            AdRef::Symbolic { tag: Some(_), .. } => "symbolic-peeled",
            AdRef::Unborn { .. } => "unborn",
        }
    }
    fn show(&self) -> String {
        match self {
            AdRef::Direct { name, oid } => format!("{name} direct {oid}"),
            AdRef::Peeled { name, tag, object } => format!("{name} tag {tag} peeled {object}"),
            AdRef::Symbolic { name, target, tag, object } => {
                format!("{name} -> {target} tag {} object {object}", tag.as_deref().unwrap_or("-"))
            }
            AdRef::Unborn { name, target } => format!("{name} -> {target} unborn"),
        }
    }
    fn from_gix(r: &Ref) -> AdRef {
        match r {
            Ref::Direct { full_ref_name, object } => AdRef::Direct { name: full_ref_name.to_string(), oid: object.to_string() },
            Ref::Peeled { full_ref_name, tag, object } => {
                AdRef::Peeled { name: full_ref_name.to_string(), tag: tag.to_string(), object: object.to_string() }
            }
            Ref::Symbolic { full_ref_name, target, tag, object } => AdRef::Symbolic {
                name: full_ref_name.to_string(),
                target: target.to_string(),
                tag: tag.map(|t| t.to_string()),
                object: object.to_string(),
            },
            Ref::Unborn { full_ref_name, target } => AdRef::Unborn { name: full_ref_name.to_string(), target: target.to_string() },
        }
    }
}

#[derive(Clone, Debug)]
struct SrvRef {
    name: String,
    oid: String,
    /// fully peeled object if `oid` is a tag object
    peeled: Option<String>,
    /// fully resolved symbolic target if the ref is symbolic
    symref: Option<String>,
}

#[derive(Clone, Debug)]
enum HeadModel {
    /// HEAD (symbolic or not) resolves to an object
    Born { oid: String, peeled: Option<String>, symref: Option<String> },
    /// symbolic, target does not exist
    Unborn { target: String },
}

struct Model {
    refs: Vec<SrvRef>,
    head: HeadModel,
    hidden: Vec<String>,
}

impl Model {
    fn is_hidden(&self, name: &str) -> bool {
        self.hidden.iter().any(|h| name == h || (name.starts_with(h.as_str()) && name.as_bytes().get(h.len()) == Some(&b'/')))
    }
    fn one(name: &str, oid: &str, peeled: &Option<String>, symref: Option<&String>) -> AdRef {
        match symref {
            Some(t) => AdRef::Symbolic {
                name: name.into(),
                target: t.clone(),
                tag: peeled.as_ref().map(|_| oid.to_string()),
                object: peeled.clone().unwrap_or_else(|| oid.to_string()),
            },
            None => match peeled {
                Some(p) => AdRef::Peeled { name: name.into(), tag: oid.into(), object: p.clone() },
                None => AdRef::Direct { name: name.into(), oid: oid.into() },
            },
        }
    }
    /// what the server advertises under the given protocol (2 => v2 with peel+symrefs+unborn)
    fn expected(&self, v2: bool) -> BTreeSet<AdRef> {
        let mut out = BTreeSet::new();
        match &self.head {
            HeadModel::Born { oid, peeled, symref } if !self.is_hidden("HEAD") => {
                out.insert(Model::one("HEAD", oid, peeled, symref.as_ref()));
            }
            HeadModel::Unborn { target } if v2 && !self.is_hidden("HEAD") => {
                out.insert(AdRef::Unborn { name: "HEAD".into(), target: target.clone() });
            }
            _ => {}
        }
        for r in &self.refs {
            if self.is_hidden(&r.name) {
                continue;
            }
            out.insert(Model::one(&r.name, &r.oid, &r.peeled, if v2 { r.symref.as_ref() } else { None }));
        }
        out
    }
}

fn read_model(srv: &Path, hidden: &[String]) -> Result<Model, String> {
    let out = git::ok(srv, &["for-each-ref", "--format=%(refname)%09%(objectname)%09%(objecttype)%09%(symref)"])?;
    let mut refs = Vec::new();
    let mut to_peel: Vec<String> = Vec::new();
    for l in out.lines() {
        let mut f: Vec<&str> = l.split('\t').collect();
        if f.len() == 3 {
            f.push(""); // trailing empty %(symref) trimmed away
        }
        if f.len() != 4 {
            return Err(format!("unexpected for-each-ref line {l:?}"));
        }
        if f[2] == "tag" {
            to_peel.push(f[1].to_string());
        }
        refs.push((f[0].to_string(), f[1].to_string(), f[2] == "tag", if f[3].is_empty() { None } else { Some(f[3].to_string()) }));
    }
    // HEAD
    let sym = git::run(srv, &["symbolic-ref", "-q", "HEAD"]).map_err(|e| e.to_string())?;
    let head_sym = if sym.ok { Some(sym.text()) } else { None };
    // peel with cat-file (independent of the ref advertisement machinery); HEAD and HEAD^{} are resolved the same way
    let mut peeled: BTreeMap<String, (String, String)> = BTreeMap::new();
    let head_oid;
    {
        to_peel.sort();
        to_peel.dedup();
        let mut input: String = to_peel.iter().map(|o| format!("{o}^{{}}\n")).collect();
        // a dangling HEAD must not fall through to `refs/heads/HEAD` via name disambiguation: resolve its (full) target name instead
        let head_name = head_sym.clone().unwrap_or_else(|| "HEAD".to_string());
        input.push_str(&format!("{head_name}\n{head_name}^{{}}\n"));
        let res = git::ok_in(srv, &["cat-file", "--batch-check=%(objectname) %(objecttype)"], input.as_bytes())?;
        let lines: Vec<&str> = res.lines().collect();
        if lines.len() != to_peel.len() + 2 {
            return Err("cat-file --batch-check line count".into());
        }
        for (o, l) in to_peel.iter().zip(lines.iter()) {
            let mut it = l.split(' ');
            let (Some(p), Some(t)) = (it.next(), it.next()) else { return Err(format!("cat-file: {l:?}")) };
            if p.len() != 40 {
                return Err(format!("cat-file: {l:?}"));
            }
            peeled.insert(o.clone(), (p.to_string(), t.to_string()));
        }
        let h = lines[to_peel.len()];
        let hp = lines[to_peel.len() + 1];
        if h.ends_with(" missing") {
            head_oid = None;
        } else {
            let id = h.split(' ').next().unwrap_or("").to_string();
            let pid = hp.split(' ').next().unwrap_or("").to_string();
            if id.len() != 40 || pid.len() != 40 {
                return Err(format!("cat-file HEAD: {h:?} {hp:?}"));
            }
            peeled.insert(id.clone(), (pid, String::new()));
            head_oid = Some(id);
        }
    }
    let refs = refs
        .into_iter()
        .map(|(name, oid, is_tag, symref)| {
            let p = if is_tag { peeled.get(&oid).map(|x| x.0.clone()) } else { None };
            SrvRef { name, oid, peeled: p, symref }
        })
        .collect();
    let head = match (head_oid, head_sym) {
        (Some(oid), symref) => {
            let p = peeled.get(&oid).filter(|(p, _)| *p != oid).map(|x| x.0.clone());
            HeadModel::Born { oid, peeled: p, symref }
        }
        (None, Some(target)) => HeadModel::Unborn { target },
        (None, None) => return Err("HEAD neither symbolic nor resolvable".into()),
    };
    Ok(Model { refs, head, hidden: hidden.to_vec() })
}

/// what `git ls-remote --symref` must print for this model (used to validate the model only)
fn lsremote_expectation(m: &Model, v2: bool) -> BTreeSet<String> {
    let mut out = BTreeSet::new();
    for r in m.expected(v2) {
        match r {
            AdRef::Direct { name, oid } => {
                out.insert(format!("{oid}\t{name}"));
            }
            AdRef::Peeled { name, tag, object } => {
                out.insert(format!("{tag}\t{name}"));
                out.insert(format!("{object}\t{name}^{{}}"));
            }
            AdRef::Symbolic { name, target, tag, object } => {
                out.insert(format!("ref: {target}\t{name}"));
                match tag {
                    Some(t) => {
                        out.insert(format!("{t}\t{name}"));
                        out.insert(format!("{object}\t{name}^{{}}"));
                    }
                    None => {
                        out.insert(format!("{object}\t{name}"));
                    }
                }
            }
            AdRef::Unborn { .. } => {} // git 2.39 ls-remote does not ask for unborn
        }
    }
    out
}

// ------------------------------------------------------------------ server generation

#[derive(Clone, Copy, Debug, PartialEq, Eq, Hash)]
enum HeadState {
    Branch,
    Chain,
    AnnotatedTag,
    Detached,
    Unborn,
    UnbornViaSymref,
    Empty,
}

struct Server {
    path: PathBuf,
    head: HeadState,
    hidden: Vec<String>,
    packed: bool,
    classes: u32,
    n_symrefs: usize,
    recipe: Vec<String>,
}

const BRANCHES: &[&str] = &["main", "dev", "feat/x", "feat/y/z", "a-b", "rel/1.0", "x.y", "ü", "HEAD", "heads/main", "tags/v1"];
const TAGS: &[&str] = &["v1", "v1.0", "rel/a", "rel/b/c", "t-é", "main", "nest"];

const C_ANNOT_COMMIT: u32 = 1;
const C_NESTED: u32 = 2;
const C_ANNOT_TREE: u32 = 4;
const C_ANNOT_BLOB: u32 = 8;
const C_LIGHT_NONCOMMIT: u32 = 16;
const C_SYMREF: u32 = 32;
const C_SYMREF_TO_TAG: u32 = 64;
const C_DANGLING: u32 = 128;
const C_OTHER_NS: u32 = 256;

fn mk_tag_object(srv: &Path, target: &str, ty: &str, name: &str, n: usize) -> Result<String, String> {
    let body = format!("object {target}\ntype {ty}\ntag {name}\ntagger T Agger <t@example.com> {} +0000\n\nannotated {name}\n", 1_600_000_000 + n);
    write_loose(srv, "tag", body.as_bytes())
}

/// write a loose object directly (bare repository layout), returns its id
fn write_loose(gitdir: &Path, kind: &str, body: &[u8]) -> Result<String, String> {
    use std::io::Write;
    let id = crate::fw::hex(&crate::fw::git_oid(kind, body));
    let dir = gitdir.join("objects").join(&id[..2]);
    std::fs::create_dir_all(&dir).map_err(|e| e.to_string())?;
    let mut enc = flate2::write::ZlibEncoder::new(Vec::new(), flate2::Compression::default());
    enc.write_all(format!("{} {}\0", kind, body.len()).as_bytes()).map_err(|e| e.to_string())?;
    enc.write_all(body).map_err(|e| e.to_string())?;
    let data = enc.finish().map_err(|e| e.to_string())?;
    std::fs::write(dir.join(&id[2..]), data).map_err(|e| e.to_string())?;
    Ok(id)
}

/// write a symbolic ref file directly (files backend)
fn write_symref(gitdir: &Path, name: &str, target: &str) -> Result<(), String> {
    let p = gitdir.join(name);
    if let Some(d) = p.parent() {
        std::fs::create_dir_all(d).map_err(|e| e.to_string())?;
    }
    std::fs::write(&p, format!("ref: {target}\n")).map_err(|e| e.to_string())
}

fn build_server(dir: &Path, r: &mut Rng) -> Result<Server, String> {
    let mut recipe = Vec::new();
    let mut classes = 0u32;
    if r.chance(1, 12) {
        git::init(dir, true)?;
        let head = if r.bool() {
            write_symref(dir, "HEAD", "refs/heads/other-unborn")?;
            recipe.push("symbolic-ref HEAD refs/heads/other-unborn".into());
            HeadState::Empty
        } else {
            HeadState::Empty
        };
        return Ok(Server { path: dir.to_path_buf(), head, hidden: vec![], packed: false, classes, n_symrefs: 0, recipe });
    }
    let spec = repogen::DagSpec {
        commits: 2 + r.usize(9),
        max_parents: 2,
        merge_pct: 20,
        root_pct: 10,
        time_mode: repogen::TimeMode::Increasing,
        max_changes: 2,
        rich_trees: false,
        delta_fodder: false,
    };
    let repo = repogen::build_dag(dir, r, &spec)?;
    let commits: Vec<String> = repo.commits.iter().map(|c| c.id.clone()).collect();
    let objs = repo.all_objects()?;
    let trees: Vec<String> = objs.iter().filter(|o| o.1 == "tree").map(|o| o.0.clone()).collect();
    let blobs: Vec<String> = objs.iter().filter(|o| o.1 == "blob").map(|o| o.0.clone()).collect();

    let mut batch = String::new();
    // drop most keep refs so that the advertisement is dominated by the interesting ones
    let keep = r.usize(3);
    for i in keep..commits.len() {
        batch.push_str(&format!("delete refs/keep/{i}\n"));
    }
    if keep > 0 {
        classes |= C_OTHER_NS;
    }
    // branches
    let mut branches: Vec<String> = Vec::new();
    let mut pool: Vec<&str> = BRANCHES.to_vec();
    r.shuffle(&mut pool);
    let nb = 1 + r.usize(5);
    for name in pool.iter().take(nb) {
        let c = r.pick(&commits);
        batch.push_str(&format!("create refs/heads/{name} {c}\n"));
        branches.push(format!("refs/heads/{name}"));
    }
    // lightweight tags
    let mut tagpool: Vec<&str> = TAGS.to_vec();
    r.shuffle(&mut tagpool);
    let mut tagpool = tagpool.into_iter();
    for _ in 0..r.usize(3) {
        let Some(name) = tagpool.next() else { break };
        let target = match r.below(5) {
            0 if !trees.is_empty() => {
                classes |= C_LIGHT_NONCOMMIT;
                r.pick(&trees).clone()
            }
            1 if !blobs.is_empty() => {
                classes |= C_LIGHT_NONCOMMIT;
                r.pick(&blobs).clone()
            }
            _ => r.pick(&commits).clone(),
        };
        batch.push_str(&format!("create refs/tags/{name} {target}\n"));
    }
    // annotated tags
    let mut annotated: Vec<String> = Vec::new();
    let na = r.usize(5);
    for n in 0..na {
        let Some(name) = tagpool.next() else { break };
        let (target, ty) = match r.below(6) {
            0 if !trees.is_empty() => {
                classes |= C_ANNOT_TREE;
                (r.pick(&trees).clone(), "tree")
            }
            1 if !blobs.is_empty() => {
                classes |= C_ANNOT_BLOB;
                (r.pick(&blobs).clone(), "blob")
            }
            _ => {
                classes |= C_ANNOT_COMMIT;
                (r.pick(&commits).clone(), "commit")
            }
        };
        let mut id = mk_tag_object(dir, &target, ty, name, n)?;
        let depth = if r.chance(1, 3) { 1 + r.usize(3) } else { 0 };
        for d in 0..depth {
            classes |= C_NESTED;
            id = mk_tag_object(dir, &id, "tag", &format!("{name}-n{d}"), n)?;
        }
        let refname = if r.chance(1, 8) {
            classes |= C_OTHER_NS;
            format!("refs/notes/{n}")
        } else {
            format!("refs/tags/{name}")
        };
        batch.push_str(&format!("create {refname} {id}\n"));
        annotated.push(refname);
    }
    if r.chance(1, 4) {
        classes |= C_OTHER_NS;
        batch.push_str(&format!("create refs/pull/{}/head {}\n", r.below(100), r.pick(&commits)));
    }
    recipe.push(batch.replace('\n', "; "));
    git::ok_in(dir, &["update-ref", "--stdin"], batch.as_bytes())?;

    // symbolic refs
    let mut symrefs: Vec<String> = Vec::new();
    let ns = if r.chance(1, 2) { 0 } else { 1 + r.usize(4) };
    for n in 0..ns {
        let name = match r.below(4) {
            0 => format!("refs/heads/sym{n}"),
            1 => "refs/remotes/origin/HEAD".to_string(),
            2 => format!("refs/sym/{n}"),
            _ => format!("refs/tags/symtag{n}"),
        };
        if symrefs.contains(&name) {
            continue;
        }
        let target = match r.below(6) {
            0 if !annotated.is_empty() => {
                classes |= C_SYMREF_TO_TAG;
                r.pick(&annotated).clone()
            }
            1 if !symrefs.is_empty() => r.pick(&symrefs).clone(),
            2 => {
                classes |= C_DANGLING;
                format!("refs/heads/does-not-exist{n}")
            }
            _ => r.pick(&branches).clone(),
        };
        write_symref(dir, &name, &target)?;
        recipe.push(format!("symbolic-ref {name} {target}"));
        classes |= C_SYMREF;
        symrefs.push(name);
    }
    // HEAD
    let head = match r.below(12) {
        0 | 1 => {
            let c = r.pick(&commits);
            std::fs::write(dir.join("HEAD"), format!("{c}\n")).map_err(|e| e.to_string())?;
            recipe.push(format!("update-ref --no-deref HEAD {c}"));
            HeadState::Detached
        }
        2 => {
            write_symref(dir, "HEAD", "refs/heads/unborn-branch")?;
            recipe.push("symbolic-ref HEAD refs/heads/unborn-branch".into());
            HeadState::Unborn
        }
        3 if !symrefs.is_empty() => {
            let t = r.pick(&symrefs).clone();
            write_symref(dir, "HEAD", &t)?;
            recipe.push(format!("symbolic-ref HEAD {t}"));
            // resolved below from the model: may be a chain to a branch, to a tag, or dangling
            HeadState::Chain
        }
        4 if !annotated.is_empty() => {
            let t = r.pick(&annotated).clone();
            write_symref(dir, "HEAD", &t)?;
            recipe.push(format!("symbolic-ref HEAD {t}"));
            HeadState::AnnotatedTag
        }
        _ => {
            let t = r.pick(&branches).clone();
            write_symref(dir, "HEAD", &t)?;
            recipe.push(format!("symbolic-ref HEAD {t}"));
            HeadState::Branch
        }
    };
    let packed = r.chance(1, 3);
    if packed {
        git::ok(dir, &["pack-refs", "--all"])?;
        recipe.push("pack-refs --all".into());
    }
    let mut hidden = Vec::new();
    if r.chance(1, 5) {
        let h = match r.below(5) {
            0 => "refs/tags".to_string(),
            1 => "refs/keep".to_string(),
            2 => r.pick(&branches).clone(),
            3 => "refs/heads/feat".to_string(),
            _ => "refs/sym".to_string(),
        };
        let key = if r.bool() { "uploadpack.hideRefs" } else { "transfer.hideRefs" };
        {
            use std::io::Write;
            let (sec, k) = key.split_once('.').expect("section.key");
            let mut f = std::fs::OpenOptions::new().append(true).open(dir.join("config")).map_err(|e| e.to_string())?;
            write!(f, "[{sec}]\n\t{k} = {h}\n").map_err(|e| e.to_string())?;
        }
        recipe.push(format!("config --add {key} {h}"));
        hidden.push(h);
    }
    Ok(Server { path: dir.to_path_buf(), head, hidden, packed, classes, n_symrefs: symrefs.len(), recipe })
}

// ------------------------------------------------------------------ observation

/// stable class of an error: the CamelCase variant names of its Debug rendering
fn err_class(dbg: &str) -> String {
    let mut out: Vec<String> = Vec::new();
    let b = dbg.as_bytes();
    let mut i = 0;
    let mut in_str = false;
    while i < b.len() && out.len() < 5 {
        if b[i] == b'"' {
            in_str = !in_str;
            i += 1;
            continue;
        }
        if !in_str && b[i].is_ascii_uppercase() && (i == 0 || !(b[i - 1].is_ascii_alphanumeric() || b[i - 1] == b'_')) {
            let s = i;
            while i < b.len() && (b[i].is_ascii_alphanumeric() || b[i] == b'_') {
                i += 1;
            }
            let w = &dbg[s..i];
            if w != "Some" && w != "None" && w != "Os" && w != "Custom" {
                out.push(w.to_string());
            }
            continue;
        }
        i += 1;
    }
    out.join("/")
}

fn open_client(path: &Path, proto: u8) -> Result<gix::Repository, String> {
    gix::open_opts(
        path,
        gix::open::Options::isolated().config_overrides([format!("protocol.version={proto}")]),
    )
    .map_err(|e| format!("open client: {e}"))
}

/// Calibration hook: `GXV_C30_MUTANT=ignore-peeled|wrong-symref|drop-unborn` post-processes what gitoxide reported in a deliberately
/// wrong way (as if `peeled:` attributes were ignored / the symref target were taken from the wrong token / unborn HEAD were
/// dropped). Unset in normal operation.
fn mutate_observed(mut refs: Vec<AdRef>) -> Vec<AdRef> {
    let Ok(m) = std::env::var("GXV_C30_MUTANT") else { return refs };
    match m.as_str() {
        "ignore-peeled" => refs
            .into_iter()
            .map(|r| match r {
                AdRef::Peeled { name, tag, .. } => AdRef::Direct { name, oid: tag },
                AdRef::Symbolic { name, target, tag: Some(t), .. } => AdRef::Symbolic { name, target, tag: None, object: t },
                o => o,
            })
            .collect(),
        "wrong-symref" => refs
            .into_iter()
            .map(|r| match r {
                AdRef::Symbolic { name, tag, object, .. } => AdRef::Symbolic { target: name.clone(), name, tag, object },
                o => o,
            })
            .collect(),
        "drop-unborn" => {
            refs.retain(|r| !matches!(r, AdRef::Unborn { .. }));
            refs
        }
        _ => refs,
    }
}

/// Route A: high-level ref_map
fn observe_ref_map(client: &gix::Repository, url: &str, specs: &[&str], prefix_filter: bool) -> Result<(Vec<AdRef>, u8), String> {
    let remote = client
        .remote_at(url)
        .map_err(|e| format!("{e:?}"))?
        .with_fetch_tags(gix::remote::fetch::Tags::None)
        .with_refspecs(specs.iter().copied(), gix::remote::Direction::Fetch)
        .map_err(|e| format!("RefspecParse({e:?})"))?;
    let con = remote.connect(gix::remote::Direction::Fetch).map_err(|e| format!("Connect({e:?})"))?;
    let map = con
        .ref_map(
            gix::progress::Discard,
            gix::remote::ref_map::Options { prefix_from_spec_as_filter_on_remote: prefix_filter, ..Default::default() },
        )
        .map_err(|e| format!("{e:?}"))?;
    let v = map.handshake.server_protocol_version as u8;
    Ok((mutate_observed(map.remote_refs.iter().map(AdRef::from_gix).collect()), v))
}

/// Route B: gix-protocol handshake (+ls-refs under v2 with our own prefixes)
fn observe_protocol(url: &str, proto: u8, prefixes: &[String]) -> Result<(Vec<AdRef>, u8), String> {
    use gix_transport::Protocol;
    let version = match proto {
        0 => Protocol::V0,
        1 => Protocol::V1,
        _ => Protocol::V2,
    };
    let mut transport = gix_transport::connect(
        url,
        gix_transport::client::connect::Options { version, ..Default::default() },
    )
    .map_err(|e| format!("TransportConnect({e:?})"))?;
    let mut progress = gix::progress::Discard;
    let mut outcome = gix_protocol::fetch::handshake(
        &mut transport,
        |_a| -> gix_protocol::credentials::protocol::Result { Ok(None) },
        Vec::new(),
        &mut progress,
    )
    .map_err(|e| format!("Handshake({e:?})"))?;
    let v = outcome.server_protocol_version as u8;
    let refs = match outcome.refs.take() {
        Some(refs) => refs,
        None => {
            let prefixes = prefixes.to_vec();
            gix_protocol::ls_refs(
                &mut transport,
                &outcome.capabilities,
                move |_caps, args, _features| {
                    for p in &prefixes {
                        args.push(format!("ref-prefix {p}").into());
                    }
                    Ok(gix_protocol::ls_refs::Action::Continue)
                },
                &mut progress,
                false,
            )
            .map_err(|e| format!("LsRefs({e:?})"))?
        }
    };
    let _ = gix_protocol::indicate_end_of_interaction(&mut transport, false);
    Ok((mutate_observed(refs.iter().map(AdRef::from_gix).collect()), v))
}

struct Case<'a> {
    proto: u8,
    route: &'static str,
    head: HeadState,
    recipe: &'a [String],
}

/// compare observed list against the expected set; `subset_ok`: expected may contain more (prefix-filtered route A)
fn judge(ctx: &mut Ctx, case: &Case, observed: &[AdRef], expected: &BTreeSet<AdRef>, must_have: Option<&dyn Fn(&AdRef) -> bool>) {
    let pc = if case.proto == 2 { "v2" } else { "v0v1" };
    let mut seen: BTreeSet<&str> = BTreeSet::new();
    let by_name: BTreeMap<&str, &AdRef> = expected.iter().map(|r| (r.name(), r)).collect();
    let witness = |what: &str, detail: serde_json::Value| {
        json!({
            "protocol": case.proto, "route": case.route, "head_state": format!("{:?}", case.head), "problem": what, "detail": detail,
            "server_recipe": case.recipe,
            "expected": expected.iter().map(|r| r.show()).collect::<Vec<_>>(),
            "observed": observed.iter().map(|r| r.show()).collect::<Vec<_>>(),
        })
    };
    for o in observed {
        if !seen.insert(o.name()) {
            ctx.violation(&format!("refs|{pc}|duplicate"), "the same ref name is reported twice", witness("duplicate", json!(o.show())));
            continue;
        }
        let which = if o.name() == "HEAD" { "HEAD" } else { "ref" };
        match by_name.get(o.name()) {
            None => ctx.violation(
                &format!("refs|{pc}|extra-{which}-{}", o.kind()),
                "gitoxide reports a ref the server does not advertise",
                witness("extra", json!(o.show())),
            ),
            Some(e) if *e != o => ctx.violation(
                &format!("refs|{pc}|{which}-{}-reported-as-{}", e.kind(), o.kind()),
                "gitoxide reports a ref differently from what the server advertises (name/id/peeled/symbolic target)",
                witness("differs", json!({"expected": e.show(), "observed": o.show()})),
            ),
            Some(_) => {}
        }
    }
    for e in expected {
        if seen.contains(e.name()) {
            continue;
        }
        let required = must_have.map_or(true, |f| f(e));
        if required {
            let which = if e.name() == "HEAD" { "HEAD" } else { "ref" };
            ctx.violation(
                &format!("refs|{pc}|missing-{which}-{}", e.kind()),
                "gitoxide does not report a ref the server advertises",
                witness("missing", json!(e.show())),
            );
        }
    }
}

pub fn run(ctx: &mut Ctx) {
    hermetic_env();
    ctx.rule(
        "case = one random bare server (fast-import DAG; branches, light/annotated/nested tags incl. tree/blob targets, symrefs, chains, \
         dangling symrefs, HEAD branch|chain|annotated-tag|detached|unborn|empty repo, packed refs, hideRefs) x protocol (2 and one of 0|1) x route \
         (ref_map full, ref_map with ref-prefix filter, gix-protocol handshake(+ls-refs), ls-refs with random ref-prefix); one evaluation = \
         one advertised-set comparison; distinct = (protocol, route, HEAD state, tag/symref class bitmask, #symrefs, hidden, packed, prefix set)",
    );
    ctx.assume("git 2.39.5 upload-pack advertises symbolic targets only for HEAD under v0/v1 and for all symrefs (+unborn HEAD) under v2; the model is validated per case against `git ls-remote --symref`");
    let n = ctx.n(30, 600);
    ctx.cases("server", n, |ctx, r| {
        let srv_dir = ctx.dir("srv");
        let client_dir = ctx.dir("client");
        let srv = match build_server(&srv_dir, r) {
            Ok(s) => s,
            Err(e) => {
                ctx.count("setup_failed");
                ctx.inconclusive(&format!("server setup failed: {}", e.chars().take(200).collect::<String>()));
                return;
            }
        };
        if let Err(e) = gix::init_bare(&client_dir) {
            ctx.inconclusive(&format!("client init failed: {e}"));
            return;
        }
        let model = match read_model(&srv.path, &srv.hidden) {
            Ok(m) => m,
            Err(e) => {
                ctx.count("model_failed");
                ctx.inconclusive(&format!("oracle failed: {}", e.chars().take(200).collect::<String>()));
                return;
            }
        };
        // refine head state from the model
        let head = match (&srv.head, &model.head) {
            (HeadState::Chain, HeadModel::Unborn { .. }) => HeadState::UnbornViaSymref,
            (HeadState::Chain, HeadModel::Born { peeled: Some(_), .. }) => HeadState::AnnotatedTag,
            (h, _) => *h,
        };
        ctx.count(&format!("head_{head:?}"));
        ctx.count_n("server_refs", model.refs.len() as u64);
        let url = format!("file://{}", srv.path.display());
        // v0 and v1 requests are both run regularly, but only one of them per server (they are served by the same code path of
        // upload-pack); v2 always.
        let mut protos = [2u8, if r.bool() { 0 } else { 1 }];
        r.shuffle(&mut protos);
        for proto in protos {
            let v2 = proto == 2;
            let expected = model.expected(v2);
            // validate the model against git's own client
            let pv = format!("protocol.version={proto}");
            match git::run(&client_dir, &["-c", &pv, "ls-remote", "--symref", &url]) {
                Ok(o) if o.ok => {
                    let got: BTreeSet<String> = o.text().lines().map(|l| l.to_string()).collect();
                    let want = lsremote_expectation(&model, v2);
                    if got != want {
                        ctx.count("model_disagrees_with_ls_remote");
                        ctx.note(
                            "model_disagreement_example",
                            json!({"protocol": proto, "recipe": srv.recipe, "only_ls_remote": got.difference(&want).collect::<Vec<_>>(), "only_model": want.difference(&got).collect::<Vec<_>>()}),
                        );
                        ctx.inconclusive("model of the advertisement disagrees with git ls-remote; case skipped");
                        continue;
                    }
                    ctx.count("git_ls_remote_checks");
                }
                _ => {
                    ctx.count("ls_remote_failed");
                    ctx.inconclusive("git ls-remote failed");
                    continue;
                }
            }
            for e in &expected {
                ctx.count(&format!("advertised_{}_{}", if v2 { "v2" } else { "v0v1" }, e.kind()));
            }
            let client = match open_client(&client_dir, proto) {
                Ok(c) => c,
                Err(e) => {
                    ctx.inconclusive(&e);
                    return;
                }
            };
            let shape_base = (proto, head, srv.classes, srv.n_symrefs.min(3), !srv.hidden.is_empty(), srv.packed);

            // ---- route A, everything
            {
                let case = Case { proto, route: "ref_map", head, recipe: &srv.recipe };
                ctx.eval();
                ctx.distinct((shape_base, "ref_map"));
                let res = guard(|| observe_ref_map(&client, &url, &["+refs/*:refs/remotes/all/*"], false));
                match res {
                    Err(p) => ctx.panic_violation("Connection::ref_map", &p, &format!("proto{}", if v2 { "2" } else { "01" }), json!({"recipe": srv.recipe, "protocol": proto})),
                    Ok(Err(e)) => ctx.violation(
                        &format!("handshake-error|{}|{}|head={:?}", if v2 { "v2" } else { "v0v1" }, err_class(&e), head),
                        "connect/ref_map against a valid git upload-pack failed",
                        json!({"protocol": proto, "route": "ref_map", "error": e, "server_recipe": srv.recipe, "expected": expected.iter().map(|r| r.show()).collect::<Vec<_>>()}),
                    ),
                    Ok(Ok((obs, v))) => {
                        if v != proto {
                            ctx.count("server_protocol_differs_from_requested");
                        }
                        ctx.count(&format!("served_as_v{v}_when_asked_v{proto}"));
                        judge(ctx, &case, &obs, &expected, None);
                        if ctx.want_sample() {
                            ctx.sample(json!({"protocol": proto, "route": "ref_map", "head": format!("{head:?}"), "refs": obs.iter().map(|r| r.show()).collect::<Vec<_>>() }));
                        }
                    }
                }
            }
            // ---- route A with prefix filter from refspecs
            {
                let choices: &[(&[&str], &[&str])] = &[
                    (&["+refs/heads/*:refs/remotes/o/*"], &["refs/heads/"]),
                    (&["refs/tags/*:refs/tags/*"], &["refs/tags/"]),
                    (&["+refs/heads/*:refs/remotes/o/*", "+refs/notes/*:refs/notes/*"], &["refs/heads/", "refs/notes/"]),
                    (&["refs/heads/main:refs/remotes/o/main"], &["=refs/heads/main"]),
                    (&["+refs/heads/*:refs/remotes/o/*", "+refs/tags/*:refs/tags/*", "+refs/sym/*:refs/sym/*"], &["refs/heads/", "refs/tags/", "refs/sym/"]),
                    (&["+refs/heads/feat/*:refs/remotes/o/feat/*"], &["refs/heads/feat/"]),
                ];
                let idx = r.usize(choices.len());
                let (specs, need) = choices[idx];
                let case = Case { proto, route: "ref_map+prefix", head, recipe: &srv.recipe };
                ctx.eval();
                ctx.distinct((shape_base, "ref_map+prefix", idx));
                let res = guard(|| observe_ref_map(&client, &url, specs, true));
                match res {
                    Err(p) => ctx.panic_violation("Connection::ref_map", &p, "prefix", json!({"recipe": srv.recipe, "protocol": proto, "specs": specs})),
                    Ok(Err(e)) => ctx.violation(
                        &format!("handshake-error|{}|{}|head={:?}", if v2 { "v2" } else { "v0v1" }, err_class(&e), head),
                        "connect/ref_map against a valid git upload-pack failed",
                        json!({"protocol": proto, "route": "ref_map+prefix", "specs": specs, "error": e, "server_recipe": srv.recipe}),
                    ),
                    Ok(Ok((obs, _v))) => {
                        let required = |e: &AdRef| -> bool {
                            if !v2 {
                                return true; // v0/v1 cannot filter: the whole advertisement must be there
                            }
                            need.iter().any(|n| match n.strip_prefix('=') {
                                Some(exact) => e.name() == exact,
                                None => e.name().starts_with(n),
                            })
                        };
                        judge(ctx, &case, &obs, &expected, Some(&required));
                        ctx.count_n("prefix_filtered_refs_seen", obs.len() as u64);
                    }
                }
            }
            // ---- route B: plain handshake (+ ls-refs)
            {
                let case = Case { proto, route: "gix-protocol", head, recipe: &srv.recipe };
                ctx.eval();
                ctx.distinct((shape_base, "gix-protocol"));
                let res = guard(|| observe_protocol(&url, proto, &[]));
                match res {
                    Err(p) => ctx.panic_violation("gix_protocol::handshake", &p, &format!("proto{}", if v2 { "2" } else { "01" }), json!({"recipe": srv.recipe, "protocol": proto})),
                    Ok(Err(e)) => ctx.violation(
                        &format!("handshake-error|{}|{}|head={:?}", if v2 { "v2" } else { "v0v1" }, err_class(&e), head),
                        "gix-protocol handshake/ls-refs against a valid git upload-pack failed",
                        json!({"protocol": proto, "route": "gix-protocol", "error": e, "server_recipe": srv.recipe, "expected": expected.iter().map(|r| r.show()).collect::<Vec<_>>()}),
                    ),
                    Ok(Ok((obs, _))) => judge(ctx, &case, &obs, &expected, None),
                }
            }
            // ---- route B with own ref-prefix arguments (v2 only)
            if v2 {
                let pool = ["refs/heads/", "refs/tags/", "refs/heads/f", "HEAD", "refs/", "refs/tags/v1", "refs/k", "refs/sym", "refs/heads/main", "refs/remotes/origin/HEAD", "H", "refs/heads/sym"];
                let np = 1 + r.usize(3);
                let mut prefixes: Vec<String> = (0..np).map(|_| r.pick(&pool).to_string()).collect();
                prefixes.sort();
                prefixes.dedup();
                let filtered: BTreeSet<AdRef> = expected.iter().filter(|e| prefixes.iter().any(|p| e.name().starts_with(p.as_str()))).cloned().collect();
                let case = Case { proto, route: "ls-refs+ref-prefix", head, recipe: &srv.recipe };
                ctx.eval();
                ctx.distinct((shape_base, "ls-refs+prefix", prefixes.clone()));
                let res = guard(|| observe_protocol(&url, proto, &prefixes));
                match res {
                    Err(p) => ctx.panic_violation("gix_protocol::ls_refs", &p, "prefix", json!({"recipe": srv.recipe, "prefixes": prefixes})),
                    Ok(Err(e)) => ctx.violation(
                        &format!("handshake-error|v2|{}|head={:?}", err_class(&e), head),
                        "gix-protocol handshake/ls-refs against a valid git upload-pack failed",
                        json!({"protocol": proto, "route": "ls-refs+ref-prefix", "prefixes": prefixes, "error": e, "server_recipe": srv.recipe}),
                    ),
                    Ok(Ok((obs, _))) => {
                        ctx.count_n("ls_refs_prefix_refs_seen", obs.len() as u64);
                        judge(ctx, &case, &obs, &filtered, None);
                        if ctx.want_sample() {
                            ctx.sample(json!({"protocol": 2, "route": "ls-refs", "prefixes": prefixes, "refs": obs.iter().map(|r| r.show()).collect::<Vec<_>>() }));
                        }
                    }
                }
            }
        }
    });
}
