//! C43 Content filters agree with git.
//!
//! One case = one scratch repository with a random line-ending configuration
//! (core.autocrlf / core.eol / core.safecrlf), a `.gitattributes` giving every file its own
//! attribute set (text / -text / text=auto / eol / crlf / ident / binary …) and random contents.
//!
//! Oracles (all differential against git 2.39.5 on the very same repository directory):
//!  A  to-git:       `repo.filter_pipeline().convert_to_git()`  ==  blob stored by `git hash-object -w --stdin-paths`
//!                   (including the core.safecrlf=true verdict: git dies <=> gitoxide returns RoundTrip error, same kind)
//!  B  to-git+index: same, with an older blob for the path in the index (auto-crlf looks at it), oracle `git add`
//!  C  to-worktree:  `convert_to_worktree()` == file written by `git checkout-index -f -a`
use crate::fw::{self, git, guard, show, Ctx, PanicInfo, Rng};
use bstr::ByteSlice;
use serde_json::json;
use std::io::Read;
use std::path::Path;

pub fn child(_mode: &str) {}

// ------------------------------------------------------------------ generators

const WORDS: &[&str] = &[
    "alpha", "beta", "x", "fn main()", "{", "}", "let a = 1;", "# comment", "\t", " ", "caf\u{e9}", "\u{4e16}\u{754c}", "0123456789",
    "The quick brown fox", "", "", "--", "$", "Id", "$Id", "Id$",
];
const IDENT_PLAIN: &[&str] = &["$Id$", "$Id$", "$Id$", "$$Id$", "$Id$Id$", "$Id$$Id$", "$Id $", "$id$", "$Id$\t"];
const IDENT_EXPANDED: &[&str] = &[
    "$Id: 0123456789abcdef0123456789abcdef01234567 $",
    "$Id: 0123456789abcdef0123456789abcdef01234567$",
    "$Id: foo bar baz $",
    "$Id:$",
    "$Id: $",
    "$Id:x$",
    "$Id: unterminated",
    "$Id:",
    "$Id: a $Id: b$",
    "$Id$Id: x$",
];

#[derive(Clone, Copy, PartialEq, Eq, Hash, Debug)]
enum EolProfile {
    Lf,
    Crlf,
    Mixed,
    MixedLoneCr,
    CrOnly,
}

/// Random blob/worktree content. `allow_expanded`: may contain `$Id: ...` forms.
fn gen_content(r: &mut Rng, allow_expanded: bool) -> Vec<u8> {
    match r.below(24) {
        0 => Vec::new(),
        1 | 2 => {
            let specials: &[&[u8]] = &[
                b"\r\n", b"\n", b"\r", b"a", b"\x1a", b"a\r\n\x1a", b"a\n\x1a", b"$Id$", b"\0", b"a\r", b"\n\r", b"\r\r\n", b"a\r\nb\n", b"a\nb\r\n",
                b"a\r\nb", b"\r\n\r\n", b"$Id$\r\n", b"a\0\r\n", b"\x01\r\n", b"\x7f\r\n",
            ];
            r.pick(specials).to_vec()
        }
        3 | 4 => gen_ratio_boundary(r),
        5 => {
            // larger than git's 8000-byte "first few bytes" window used elsewhere; the filter must scan everything
            let n0 = 300 + r.usize(200);
            let mut v = gen_lines(r, allow_expanded, n0);
            while v.len() < 8200 {
                let more = gen_lines(r, allow_expanded, 100);
                if more.is_empty() {
                    v.extend_from_slice(b"pad\n");
                }
                v.extend(more);
            }
            match r.below(4) {
                0 => v.push(0),
                1 => v.extend_from_slice(b"\rtail"),
                2 => v.extend_from_slice(b"x\r\n"),
                _ => {}
            }
            v
        }
        _ => {
            let n = 1 + r.usize(10);
            gen_lines(r, allow_expanded, n)
        }
    }
}

fn gen_lines(r: &mut Rng, allow_expanded: bool, n_lines: usize) -> Vec<u8> {
    let profile = *r.pick(&[
        EolProfile::Lf,
        EolProfile::Lf,
        EolProfile::Crlf,
        EolProfile::Crlf,
        EolProfile::Mixed,
        EolProfile::Mixed,
        EolProfile::MixedLoneCr,
        EolProfile::CrOnly,
    ]);
    let with_nul = r.chance(1, 12);
    let with_ctrl = r.chance(1, 8);
    let ident_rate = *r.pick(&[0u64, 0, 1, 3]); // out of 6 per line
    let mut v = Vec::new();
    for i in 0..n_lines {
        let words = r.usize(4);
        for _ in 0..words {
            v.extend_from_slice(r.pick(WORDS).as_bytes());
            if r.bool() {
                v.push(b' ');
            }
        }
        if r.below(6) < ident_rate {
            if allow_expanded && r.chance(2, 5) {
                v.extend_from_slice(r.pick(IDENT_EXPANDED).as_bytes());
            } else {
                v.extend_from_slice(r.pick(IDENT_PLAIN).as_bytes());
            }
            if r.bool() {
                v.extend_from_slice(b" trailing");
            }
        }
        if with_nul && r.chance(1, 3) {
            v.push(0);
        }
        if with_ctrl && r.chance(1, 2) {
            v.push(*r.pick(&[1u8, 7, 8, 9, 11, 12, 27, 26, 127, 31, 0x80, 0xff]));
        }
        let last = i + 1 == n_lines;
        if last && r.chance(1, 4) {
            break; // no final newline
        }
        match profile {
            EolProfile::Lf => v.push(b'\n'),
            EolProfile::Crlf => v.extend_from_slice(b"\r\n"),
            EolProfile::Mixed => {
                if r.bool() {
                    v.push(b'\n')
                } else {
                    v.extend_from_slice(b"\r\n")
                }
            }
            EolProfile::MixedLoneCr => match r.below(4) {
                0 => v.push(b'\r'),
                1 => v.push(b'\n'),
                _ => v.extend_from_slice(b"\r\n"),
            },
            EolProfile::CrOnly => v.push(b'\r'),
        }
    }
    if r.chance(1, 16) {
        v.push(0x1a); // DOS EOF marker
    }
    v
}

/// Contents sitting on the boundary of git's `(printable >> 7) < nonprintable` binary heuristic.
fn gen_ratio_boundary(r: &mut Rng) -> Vec<u8> {
    let k = 1 + r.usize(3); // non-printables
    let printable = (128 * k as i64 + r.range(-2, 1)).max(0) as usize;
    let mut v: Vec<u8> = Vec::with_capacity(printable + k + 40);
    for i in 0..printable {
        v.push(b'a' + (i % 26) as u8);
    }
    // CR/LF do not count in either class; spread some line endings of one or two kinds
    let eol: &[u8] = if r.bool() { b"\r\n" } else { b"\n" };
    let n_eol = 1 + r.usize(6);
    for _ in 0..n_eol {
        let at = r.usize(v.len() + 1);
        let e: &[u8] = if r.chance(1, 5) { b"\n" } else { eol };
        for (j, b) in e.iter().enumerate() {
            v.insert(at + j, *b);
        }
    }
    let np = *r.pick(&[1u8, 7, 127, 26, 11]);
    for _ in 0..k {
        // never between CR and LF
        let mut at = r.usize(v.len() + 1);
        if at > 0 && at < v.len() && v[at - 1] == b'\r' && v[at] == b'\n' {
            at -= 1;
        }
        v.insert(at, np);
    }
    if r.chance(1, 3) {
        v.push(0x1a);
    }
    v
}

fn gen_attrs(r: &mut Rng) -> String {
    if r.chance(1, 12) {
        return String::new(); // unspecified: config alone decides
    }
    let mut parts: Vec<&str> = Vec::new();
    if r.chance(1, 12) {
        parts.push("binary");
    }
    match r.below(12) {
        0..=2 => parts.push("text"),
        3 => parts.push("-text"),
        4..=6 => parts.push("text=auto"),
        7 => parts.push(*r.pick(&["!text", "text=bogus", "text=input"])),
        _ => {}
    }
    match r.below(12) {
        0 => parts.push("crlf"),
        1 => parts.push("-crlf"),
        2 => parts.push("crlf=input"),
        3 => parts.push(*r.pick(&["crlf=auto", "!crlf", "crlf=bogus"])),
        _ => {}
    }
    match r.below(10) {
        0 | 1 => parts.push("eol=lf"),
        2 | 3 => parts.push("eol=crlf"),
        4 => parts.push(*r.pick(&["eol=bogus", "-eol", "eol", "!eol", "eol=native"])),
        _ => {}
    }
    match r.below(10) {
        0..=3 => parts.push("ident"),
        4 => parts.push(*r.pick(&["-ident", "ident=yes", "!ident"])),
        _ => {}
    }
    r.shuffle(&mut parts);
    parts.join(" ")
}

// ------------------------------------------------------------------ small helpers

#[derive(Clone, Copy, PartialEq, Eq, Hash, Debug)]
struct ContentShape {
    lf: bool,
    crlf: bool,
    lone_cr: bool,
    nul: bool,
    ratio_binary: bool,
    ctrlz_tail: bool,
    ident: u8, // 0 none, 1 plain $Id$, 2 expanded only, 3 both
    size: u8,
}

fn content_shape(b: &[u8]) -> ContentShape {
    let (mut lf, mut crlf, mut lone_cr, mut nul) = (false, false, false, false);
    let (mut printable, mut nonprintable) = (0usize, 0usize);
    let mut i = 0;
    while i < b.len() {
        let c = b[i];
        if c == b'\r' {
            if b.get(i + 1) == Some(&b'\n') {
                crlf = true;
                i += 2;
                continue;
            }
            lone_cr = true;
        } else if c == b'\n' {
            lf = true;
        } else if c == 0 {
            nul = true;
            nonprintable += 1;
        } else if c == 127 || (c < 32 && !matches!(c, 8 | 9 | 27 | 12)) {
            nonprintable += 1;
        } else {
            printable += 1;
        }
        i += 1;
    }
    let plain = b.find(b"$Id$").is_some();
    let expanded = b.find(b"$Id:").is_some();
    ContentShape {
        lf,
        crlf,
        lone_cr,
        nul,
        ratio_binary: (printable >> 7) < nonprintable,
        ctrlz_tail: b.last() == Some(&0x1a),
        ident: plain as u8 | ((expanded as u8) << 1),
        size: match b.len() {
            0 => 0,
            1..=63 => 1,
            64..=1023 => 2,
            1024..=7999 => 3,
            _ => 4,
        },
    }
}

fn strip_cr(b: &[u8]) -> Vec<u8> {
    b.iter().copied().filter(|c| *c != b'\r').collect()
}

/// How two conversion results differ (for stable signatures).
fn diff_class(src: &[u8], gix: &[u8], git_: &[u8]) -> String {
    let who = if gix == src && git_ != src {
        "gix-unchanged"
    } else if git_ == src && gix != src {
        "git-unchanged"
    } else {
        "both-changed"
    };
    let what = if strip_cr(gix) == strip_cr(git_) { "eol-only" } else { "content" };
    format!("{who}|{what}")
}

/// `$Id: <40 hex>$` -> `$Id: <40 hex> $`
fn add_space_before_closing_dollar(b: &[u8]) -> (Vec<u8>, usize) {
    let mut out = Vec::with_capacity(b.len() + 8);
    let mut n = 0;
    let mut i = 0;
    while i < b.len() {
        if b[i..].starts_with(b"$Id: ") && b.len() >= i + 46 && b[i + 5..i + 45].iter().all(|c| c.is_ascii_hexdigit()) && b[i + 45] == b'$' {
            out.extend_from_slice(&b[i..i + 45]);
            out.extend_from_slice(b" $");
            i += 46;
            n += 1;
        } else {
            out.push(b[i]);
            i += 1;
        }
    }
    (out, n)
}

fn write_file(p: &Path, data: &[u8]) -> Result<(), String> {
    if let Some(d) = p.parent() {
        std::fs::create_dir_all(d).map_err(|e| e.to_string())?;
    }
    std::fs::write(p, data).map_err(|e| format!("write {}: {e}", p.display()))
}

/// Store a blob as loose object without going through git or gitoxide (independent SHA-1 + flate2).
fn write_loose_blob(git_dir: &Path, data: &[u8]) -> Result<String, String> {
    use std::io::Write;
    let id = fw::hex(&fw::git_oid("blob", data));
    let p = git_dir.join("objects").join(&id[..2]).join(&id[2..]);
    if p.exists() {
        return Ok(id);
    }
    let mut e = flate2::write::ZlibEncoder::new(Vec::new(), flate2::Compression::fast());
    e.write_all(format!("blob {}\0", data.len()).as_bytes()).map_err(|e| e.to_string())?;
    e.write_all(data).map_err(|e| e.to_string())?;
    let z = e.finish().map_err(|e| e.to_string())?;
    write_file(&p, &z)?;
    Ok(id)
}

/// Read back a loose blob written by git (independent inflate).
fn read_loose_blob(git_dir: &Path, id: &str) -> Result<Vec<u8>, String> {
    let p = git_dir.join("objects").join(&id[..2]).join(&id[2..]);
    let z = std::fs::read(&p).map_err(|e| format!("loose object {id}: {e}"))?;
    let mut d = flate2::read::ZlibDecoder::new(&z[..]);
    let mut all = Vec::new();
    d.read_to_end(&mut all).map_err(|e| format!("inflate {id}: {e}"))?;
    let nul = all.find_byte(0).ok_or("loose header")?;
    let header = String::from_utf8_lossy(&all[..nul]).to_string();
    let body = all[nul + 1..].to_vec();
    if header != format!("blob {}", body.len()) || fw::hex(&fw::git_oid("blob", &body)) != id {
        return Err(format!("loose object {id}: bad header {header:?} or hash"));
    }
    Ok(body)
}

#[derive(Clone, Debug, PartialEq, Eq)]
enum GitStore {
    Stored(String, Vec<u8>),
    Die(&'static str, String),
}

fn die_kind(msg: &str) -> &'static str {
    if msg.contains("CRLF would be replaced by LF") {
        "crlf-to-lf"
    } else if msg.contains("LF would be replaced by CRLF") {
        "lf-to-crlf"
    } else {
        "other"
    }
}

/// `git hash-object -w --stdin-paths`, restarted after every path that makes git die (core.safecrlf=true).
fn git_hash_objects(ctx: &mut Ctx, dir: &Path, paths: &[String]) -> Result<Vec<GitStore>, String> {
    let mut res = Vec::new();
    let mut i = 0;
    while i < paths.len() {
        let input = paths[i..].join("\n") + "\n";
        let o = git::run_in(dir, &["hash-object", "-w", "--stdin-paths"], input.as_bytes()).map_err(|e| e.to_string())?;
        ctx.count("git_hash_object_calls");
        ctx.count_n("git_safecrlf_warnings_seen", o.stderr.find_iter(b"warning: in the working copy").count() as u64);
        let text = String::from_utf8_lossy(&o.stdout).to_string();
        let ids: Vec<&str> = text.lines().collect();
        if ids.len() > paths.len() - i || ids.iter().any(|l| l.len() != 40) {
            return Err(format!("hash-object: unexpected output {text:?}"));
        }
        for id in &ids {
            res.push(GitStore::Stored(id.to_string(), read_loose_blob(&dir.join(".git"), id)?));
        }
        i += ids.len();
        if o.ok {
            if i != paths.len() {
                return Err("hash-object: fewer ids than paths".into());
            }
        } else {
            if i >= paths.len() {
                return Err(format!("hash-object failed after all paths: {}", o.err_text()));
            }
            let err = o.err_text();
            let fatal = err.lines().find(|l| l.starts_with("fatal:")).unwrap_or("").to_string();
            let kind = die_kind(&fatal);
            if kind == "other" || !fatal.ends_with(&format!(" in {}", paths[i])) {
                return Err(format!("hash-object died unexpectedly at {}: {}", paths[i], err));
            }
            res.push(GitStore::Die(kind, fatal));
            i += 1;
        }
    }
    Ok(res)
}

/// `git add -- paths` with removal of the path git dies on (core.safecrlf=true), then `ls-files -s`.
fn git_add(ctx: &mut Ctx, dir: &Path, paths: &[String]) -> Result<Vec<GitStore>, String> {
    let mut remaining: Vec<usize> = (0..paths.len()).collect();
    let mut died: std::collections::HashMap<usize, (&'static str, String)> = Default::default();
    while !remaining.is_empty() {
        let mut args: Vec<String> = vec!["add".into(), "--".into()];
        args.extend(remaining.iter().map(|i| paths[*i].clone()));
        let o = git::run(dir, &args).map_err(|e| e.to_string())?;
        ctx.count("git_add_calls");
        if o.ok {
            break;
        }
        let err = o.err_text();
        let fatal = err.lines().find(|l| l.starts_with("fatal:")).unwrap_or("").to_string();
        let kind = die_kind(&fatal);
        let hit = remaining.iter().position(|i| fatal.ends_with(&format!(" in {}", paths[*i])));
        match (kind, hit) {
            ("other", _) | (_, None) => return Err(format!("git add failed: {err}")),
            (k, Some(pos)) => {
                let i = remaining.remove(pos);
                died.insert(i, (k, fatal));
            }
        }
    }
    let ls = git::run(dir, &["ls-files", "-s", "-z"]).map_err(|e| e.to_string())?;
    ctx.count("git_ls_files_calls");
    if !ls.ok {
        return Err("ls-files failed".into());
    }
    let mut id_by_path: std::collections::HashMap<String, String> = Default::default();
    for rec in ls.stdout.split(|b| *b == 0).filter(|r| !r.is_empty()) {
        let rec = String::from_utf8_lossy(rec).to_string();
        let (meta, path) = rec.split_once('\t').ok_or("ls-files format")?;
        let id = meta.split(' ').nth(1).ok_or("ls-files format")?;
        id_by_path.insert(path.to_string(), id.to_string());
    }
    let mut out = Vec::new();
    for (i, p) in paths.iter().enumerate() {
        out.push(match died.get(&i) {
            Some((k, m)) => GitStore::Die(k, m.clone()),
            None => {
                let id = id_by_path.get(p).ok_or_else(|| format!("{p} not in index after add"))?;
                GitStore::Stored(id.clone(), read_loose_blob(&dir.join(".git"), id)?)
            }
        });
    }
    Ok(out)
}

#[derive(Debug)]
enum GixStore {
    Bytes(Vec<u8>),
    RoundTrip(&'static str, String),
    Err(String),
}

fn gix_to_git(pipe: &mut gix::filter::Pipeline<'_>, index: &gix_index::State, path: &str, content: &[u8]) -> Result<GixStore, PanicInfo> {
    guard(|| {
        use gix::filter::pipeline::convert_to_git::Error as E;
        use gix_filter::eol::convert_to_git::Error as EolE;
        use gix_filter::pipeline::convert::to_git::Error as CE;
        match pipe.convert_to_git(content, Path::new(path), index) {
            Ok(mut out) => {
                let mut v = Vec::new();
                match out.read_to_end(&mut v) {
                    Ok(_) => GixStore::Bytes(v),
                    Err(e) => GixStore::Err(format!("read: {e}")),
                }
            }
            Err(E::Convert(CE::Eol(EolE::RoundTrip { msg, path }))) => {
                let m = format!("{msg} in {}", path.display());
                GixStore::RoundTrip(die_kind(&m), m)
            }
            Err(e) => GixStore::Err(format!("{e:?}")),
        }
    })
}

fn gix_to_worktree(pipe: &mut gix::filter::Pipeline<'_>, path: &str, blob: &[u8]) -> Result<Result<Vec<u8>, String>, PanicInfo> {
    guard(|| match pipe.convert_to_worktree(blob, path.as_bytes().as_bstr(), gix_filter::driver::apply::Delay::Forbid) {
        Ok(mut out) => {
            let mut v = Vec::new();
            out.read_to_end(&mut v).map(|_| v).map_err(|e| format!("read: {e}"))
        }
        Err(e) => Err(format!("{e:?}")),
    })
}

// ------------------------------------------------------------------ the case

#[derive(Clone)]
struct FileSpec {
    /// path used in the to-git direction
    path: String,
    /// sibling path with the same attributes used in the to-worktree direction
    wpath: String,
    attrs: String,
    content: Vec<u8>,
    /// older version of the path in the index (phase B)
    prior: Option<Vec<u8>>,
    /// phase C: use the blob git produced in phase A (if any) instead of `handmade`
    wt_from_git: bool,
    handmade: Vec<u8>,
}

impl FileSpec {
    fn attrs_sorted(&self) -> String {
        let mut t: Vec<&str> = self.attrs.split(' ').filter(|s| !s.is_empty()).collect();
        t.sort();
        t.join(" ")
    }
    fn ident_has_value(&self) -> bool {
        self.attrs.split(' ').any(|t| t.starts_with("ident="))
    }
}

type ConfKey = (Option<&'static str>, Option<&'static str>, Option<&'static str>);

fn conf_text(c: ConfKey) -> String {
    let mut s = String::from("[core]\n\trepositoryformatversion = 0\n\tfilemode = true\n\tbare = false\n");
    if let Some(v) = c.0 {
        s.push_str(&format!("\tautocrlf = {v}\n"));
    }
    if let Some(v) = c.1 {
        s.push_str(&format!("\teol = {v}\n"));
    }
    if let Some(v) = c.2 {
        s.push_str(&format!("\tsafecrlf = {v}\n"));
    }
    s
}

fn open_repo(dir: &Path) -> Result<gix::Repository, String> {
    gix::open_opts(dir, gix::open::Options::isolated()).map_err(|e| format!("gix::open: {e}"))
}

/// A repository skeleton equivalent to `git init` (saves a process per case).
fn init_skeleton(dir: &Path, conf: ConfKey) -> Result<(), String> {
    for d in ["objects/info", "objects/pack", "refs/heads", "refs/tags", "info"] {
        std::fs::create_dir_all(dir.join(".git").join(d)).map_err(|e| e.to_string())?;
    }
    write_file(&dir.join(".git/HEAD"), b"ref: refs/heads/main\n")?;
    write_file(&dir.join(".git/config"), conf_text(conf).as_bytes())
}

struct Case {
    conf: ConfKey,
    global_line: Option<&'static str>,
    ga: String,
    files: Vec<FileSpec>,
}

impl Case {
    fn witness(&self, f: &FileSpec, path: &str) -> serde_json::Value {
        json!({
            "config": {"core.autocrlf": self.conf.0, "core.eol": self.conf.1, "core.safecrlf": self.conf.2},
            "gitattributes": self.ga,
            "path": path,
            "attrs": f.attrs,
        })
    }
}

fn gen_case(r: &mut Rng, n_files: usize) -> Case {
    let conf: ConfKey = (
        *r.pick(&[None, None, Some("true"), Some("true"), Some("input"), Some("false")]),
        *r.pick(&[None, None, Some("lf"), Some("crlf"), Some("crlf"), Some("native")]),
        *r.pick(&[None, Some("true"), Some("warn"), Some("false")]),
    );
    let global_line = match r.below(8) {
        0 => Some("* text=auto"),
        1 => Some("* text eol=crlf"),
        2 => Some("* -text"),
        3 => Some("* ident"),
        4 => Some("*.t eol=crlf"),
        _ => None,
    };
    let mut files = Vec::new();
    for i in 0..n_files {
        let (path, wpath) = match r.below(6) {
            0 => (format!("sub/g{i:02}"), format!("sub/wg{i:02}")),
            1 => (format!("f{i:02}.t"), format!("wf{i:02}.t")),
            _ => (format!("f{i:02}"), format!("wf{i:02}")),
        };
        let attrs = gen_attrs(r);
        let content = gen_content(r, true);
        let prior = if r.chance(2, 5) {
            Some(match r.below(5) {
                0 => b"one\r\ntwo\r\n".to_vec(),
                1 => b"one\ntwo\n".to_vec(),
                2 => b"one\r\ntwo\n\0".to_vec(),
                _ => gen_content(r, true),
            })
        } else {
            None
        };
        let wt_from_git = r.chance(1, 3);
        let handmade = gen_content(r, false);
        files.push(FileSpec { path, wpath, attrs, content, prior, wt_from_git, handmade });
    }
    let mut ga = String::new();
    if let Some(g) = global_line {
        ga.push_str(g);
        ga.push('\n');
    }
    for f in &files {
        if !f.attrs.is_empty() {
            ga.push_str(&format!("{} {}\n{} {}\n", f.path, f.attrs, f.wpath, f.attrs));
        }
    }
    Case { conf, global_line, ga, files }
}

fn one_case(ctx: &mut Ctx, r: &mut Rng) {
    let n_files = 8 + r.usize(17);
    let case = gen_case(r, n_files);
    let root = ctx.dir("case");
    let dir = root.join("r");
    if let Err(e) = run_case(ctx, &case, &dir) {
        ctx.inconclusive(&format!("oracle/setup failure: {}", e.chars().take(240).collect::<String>()));
    }
}

fn run_case(ctx: &mut Ctx, case: &Case, dir: &Path) -> Result<(), String> {
    let files = &case.files;
    init_skeleton(dir, case.conf)?;
    write_file(&dir.join(".gitattributes"), case.ga.as_bytes())?;
    for f in files {
        write_file(&dir.join(&f.path), &f.content)?;
    }
    let paths: Vec<String> = files.iter().map(|f| f.path.clone()).collect();

    // ---------- phase A: to-git vs `git hash-object -w` (no index entry for the path)
    let git_a = git_hash_objects(ctx, dir, &paths)?;
    let mut gix_a = Vec::new();
    {
        let repo = open_repo(dir)?;
        let (mut pipe, index) = match repo.filter_pipeline(None) {
            Ok(x) => x,
            Err(e) => {
                ctx.violation(
                    "to-git|filter_pipeline-error",
                    "repo.filter_pipeline() failed on a plain repository",
                    json!({"err": format!("{e:?}"), "config": conf_text(case.conf), "gitattributes": case.ga}),
                );
                return Ok(());
            }
        };
        for f in files {
            gix_a.push(gix_to_git(&mut pipe, &index, &f.path, &f.content));
        }
    }
    let mut a_mismatch = vec![false; files.len()];
    for (i, f) in files.iter().enumerate() {
        ctx.eval();
        ctx.count("to_git_compared");
        let cs = content_shape(&f.content);
        let held = judge_to_git(ctx, "to-git", case, f, &gix_a[i], &git_a[i], None);
        a_mismatch[i] = !held;
        let changed = matches!(&git_a[i], GitStore::Stored(_, b) if b != &f.content);
        ctx.distinct(("A", f.attrs_sorted(), case.global_line, case.conf, cs, matches!(git_a[i], GitStore::Die(..)), changed));
        if changed {
            ctx.count("to_git_git_changed_bytes");
        }
        if let GitStore::Die(k, _) = &git_a[i] {
            ctx.count(&format!("to_git_git_dies_{k}"));
        }
        if ctx.want_sample() {
            let mut w = case.witness(f, &f.path);
            w["direction"] = json!("to-git");
            w["content"] = json!(show(&f.content[..f.content.len().min(200)]));
            w["git"] = json!(match &git_a[i] {
                GitStore::Stored(id, _) => format!("stores {id}"),
                GitStore::Die(_, m) => m.clone(),
            });
            w["gix"] = json!(match &gix_a[i] {
                Ok(GixStore::Bytes(b)) => format!("{} bytes, id {}", b.len(), fw::hex(&fw::git_oid("blob", b))),
                Ok(GixStore::RoundTrip(_, m)) => m.clone(),
                Ok(GixStore::Err(e)) => e.clone(),
                Err(p) => format!("panic {}", p.message),
            });
            ctx.sample(w);
        }
    }

    // ---------- choose the blobs for phase C and install index entries for B (priors) and C in one go
    let git_dir = dir.join(".git");
    let mut info = String::new();
    let b_idx: Vec<usize> = (0..files.len()).filter(|i| files[*i].prior.is_some()).collect();
    for i in &b_idx {
        let id = write_loose_blob(&git_dir, files[*i].prior.as_ref().unwrap())?;
        info.push_str(&format!("100644 {} 0\t{}\n", id, files[*i].path));
    }
    let mut c_blobs: Vec<(Vec<u8>, String, bool)> = Vec::new();
    for (i, f) in files.iter().enumerate() {
        let (blob, from_git) = match (&git_a[i], f.wt_from_git) {
            (GitStore::Stored(_, b), true) => (b.clone(), true),
            _ => (f.handmade.clone(), false),
        };
        let id = write_loose_blob(&git_dir, &blob)?;
        info.push_str(&format!("100644 {} 0\t{}\n", id, f.wpath));
        c_blobs.push((blob, id, from_git));
    }
    git::ok_in(dir, &["update-index", "--index-info"], info.as_bytes())?;
    ctx.count("git_update_index_calls");

    // ---------- phase B: to-git with an older version of the path in the index, oracle `git add`
    if !b_idx.is_empty() {
        let mut gix_b = Vec::new();
        {
            let repo = open_repo(dir)?;
            let (mut pipe, index) = repo.filter_pipeline(None).map_err(|e| format!("filter_pipeline: {e:?}"))?;
            if index.entries().len() != b_idx.len() + files.len() {
                return Err("gix index does not show the prepared entries".into());
            }
            for i in &b_idx {
                gix_b.push(gix_to_git(&mut pipe, &index, &files[*i].path, &files[*i].content));
            }
        }
        let b_paths: Vec<String> = b_idx.iter().map(|i| files[*i].path.clone()).collect();
        let git_b = git_add(ctx, dir, &b_paths)?;
        for (k, i) in b_idx.iter().enumerate() {
            let f = &files[*i];
            let prior = f.prior.as_deref().unwrap();
            if a_mismatch[*i] {
                ctx.count("to_git_indexed_skipped_already_mismatching");
                continue;
            }
            ctx.eval();
            ctx.count("to_git_indexed_compared");
            let ps = content_shape(prior);
            let prior_binary = ps.lone_cr || ps.nul || ps.ratio_binary;
            if ps.crlf && !prior_binary {
                ctx.count("to_git_indexed_prior_has_text_crlf");
            }
            judge_to_git(ctx, "to-git-indexed", case, f, &gix_b[k], &git_b[k], Some(prior));
            let kept_crlf = matches!(&git_b[k], GitStore::Stored(_, b) if b.find(b"\r\n").is_some());
            if kept_crlf {
                ctx.count("to_git_indexed_git_kept_crlf");
            }
            let differs_from_a = git_b[k] != git_a[*i];
            if differs_from_a {
                ctx.count("to_git_indexed_git_result_differs_from_unindexed");
            }
            ctx.distinct(("B", f.attrs_sorted(), case.global_line, case.conf, content_shape(&f.content), (ps.crlf, prior_binary), kept_crlf, differs_from_a));
        }
    }

    // ---------- phase C: to-worktree vs `git checkout-index`
    let mut args: Vec<String> = vec!["checkout-index".into(), "-f".into(), "--".into()];
    args.extend(files.iter().map(|f| f.wpath.clone()));
    let o = git::run(dir, &args).map_err(|e| e.to_string())?;
    ctx.count("git_checkout_index_calls");
    if !o.ok {
        return Err(format!("checkout-index: {}", o.err_text()));
    }
    let repo = open_repo(dir)?;
    let (mut pipe, _index) = repo.filter_pipeline(None).map_err(|e| format!("filter_pipeline: {e:?}"))?;
    for (i, f) in files.iter().enumerate() {
        let (blob, id, from_git) = &c_blobs[i];
        if has_expanded_id(blob) {
            // a stray, already expanded id in a stored blob: documented gitoxide deviation (ident::apply), not judged
            ctx.count("to_worktree_skipped_expanded_id_in_blob");
            continue;
        }
        let git_bytes = std::fs::read(dir.join(&f.wpath)).map_err(|e| format!("checkout-index did not write {}: {e}", f.wpath))?;
        ctx.eval();
        ctx.count("to_worktree_compared");
        let mut w = case.witness(f, &f.wpath);
        w["blob"] = json!(show(blob));
        w["blob_id"] = json!(id);
        let gix_bytes = match gix_to_worktree(&mut pipe, &f.wpath, blob) {
            Err(p) => {
                ctx.panic_violation("Pipeline::convert_to_worktree", &p, "to-worktree", w);
                continue;
            }
            Ok(Err(e)) => {
                w["gix"] = json!(e);
                let variant: String = e.chars().take_while(|c| c.is_alphanumeric() || *c == '(').collect();
                ctx.violation(&format!("to-worktree|error|{variant}"), "convert_to_worktree() failed", w);
                continue;
            }
            Ok(Ok(b)) => b,
        };
        let bs = content_shape(blob);
        let changed = &git_bytes != blob;
        let expanded = git_bytes.find(format!("$Id: {id} $").as_bytes()).is_some();
        let cr = |b: &[u8]| b.iter().filter(|c| **c == b'\r').count();
        if cr(&git_bytes) > cr(blob) {
            ctx.count("to_worktree_git_added_cr");
        }
        if expanded {
            ctx.count("to_worktree_git_expanded_ident");
        }
        ctx.distinct(("C", f.attrs_sorted(), case.global_line, (case.conf.0, case.conf.1), bs, *from_git, changed, expanded));
        if ctx.want_sample() {
            let mut s = case.witness(f, &f.wpath);
            s["direction"] = json!("to-worktree");
            s["blob"] = json!(show(&blob[..blob.len().min(200)]));
            s["git_checkout"] = json!(show(&git_bytes[..git_bytes.len().min(240)]));
            s["gix"] = json!(show(&gix_bytes[..gix_bytes.len().min(240)]));
            ctx.sample(s);
        }
        if gix_bytes == git_bytes {
            continue;
        }
        w["gix"] = json!(show(&gix_bytes));
        w["git_checkout_index"] = json!(show(&git_bytes));
        let (fixed, n_fixed) = add_space_before_closing_dollar(&gix_bytes);
        let report_space = |ctx: &mut Ctx, w: serde_json::Value| {
            ctx.count("to_worktree_ident_space_defect_seen");
            ctx.violation(
                "to-worktree|ident|no-space-before-closing-dollar",
                "ident expansion writes `$Id: <hex>$` where git writes `$Id: <hex> $`",
                w,
            );
        };
        if n_fixed > 0 && fixed == git_bytes {
            report_space(ctx, w);
            continue;
        }
        // is git consistent with itself (streaming checkout filter vs in-core conversion)?
        let incore = git::run(dir, &["cat-file", "--filters", &format!("--path={}", f.wpath), id.as_str()]).map_err(|e| e.to_string())?;
        ctx.count("git_cat_file_filters_calls");
        if !incore.ok {
            return Err(format!("cat-file --filters: {}", incore.err_text()));
        }
        if incore.stdout != git_bytes {
            // git's streaming ident filter (checkout of non-auto paths) and convert_to_working_tree() disagree
            // on this blob (e.g. `$$Id$`): "the bytes git writes" is not well defined, do not judge.
            ctx.count("to_worktree_skipped_git_stream_vs_incore_differ");
            if fixed == incore.stdout || gix_bytes == incore.stdout {
                ctx.count("to_worktree_skipped_gix_equals_git_incore");
            }
            continue;
        }
        if n_fixed > 0 {
            report_space(ctx, w.clone());
        }
        let class = diff_class(blob, &fixed, &git_bytes);
        if blob.last() == Some(&0x1a) && class.ends_with("eol-only") {
            ctx.violation(SIG_CTRLZ, WHAT_CTRLZ, w);
        } else if f.ident_has_value() && class.ends_with("content") {
            ctx.violation(SIG_IDENT_VALUE, WHAT_IDENT_VALUE, w);
        } else {
            ctx.violation(
                &format!("to-worktree|bytes|{class}"),
                &format!("convert_to_worktree() bytes differ from what git checkout-index writes ({class}; after discounting the ident space)"),
                w,
            );
        }
    }
    Ok(())
}

const SIG_CTRLZ: &str = "eol|binary-detection|trailing-ctrl-z";
const WHAT_CTRLZ: &str = "content ending in ^Z (0x1a): git does not count the trailing EOF marker as non-printable, gitoxide does and takes the text for binary";
const SIG_IDENT_VALUE: &str = "ident|attr-with-value-treated-as-set";
const WHAT_IDENT_VALUE: &str = "`ident=<value>` enables the ident filter in gitoxide; git only honours a plainly set `ident`";

fn has_expanded_id(blob: &[u8]) -> bool {
    let mut ofs = 0;
    while let Some(p) = blob[ofs..].find(b"$Id:") {
        let rest = &blob[ofs + p + 4..];
        if let Some(e) = rest.find_byteset(b"$\n") {
            if rest[e] == b'$' {
                return true;
            }
        }
        ofs += p + 4;
    }
    false
}

/// Compare one to-git result; returns true if the property held.
fn judge_to_git(ctx: &mut Ctx, phase: &str, case: &Case, f: &FileSpec, gix_res: &Result<GixStore, PanicInfo>, git_res: &GitStore, prior: Option<&[u8]>) -> bool {
    let src = &f.content;
    let mut w = case.witness(f, &f.path);
    w["content"] = json!(show(src));
    if let Some(p) = prior {
        w["index_blob_for_path"] = json!(show(p));
    }
    let gix_res = match gix_res {
        Ok(x) => x,
        Err(p) => {
            ctx.panic_violation("Pipeline::convert_to_git", p, phase, w);
            return false;
        }
    };
    // the same mis-detection applies to the blob in the index that auto-crlf consults
    let ctrlz = src.last() == Some(&0x1a) || prior.map_or(false, |p| p.last() == Some(&0x1a));
    match (gix_res, git_res) {
        (GixStore::Bytes(a), GitStore::Stored(id, b)) => {
            if a == b {
                return true;
            }
            w["gix"] = json!(show(a));
            w["git"] = json!(show(b));
            w["git_id"] = json!(id);
            let class = diff_class(src, a, b);
            if ctrlz && class.ends_with("eol-only") {
                ctx.violation(SIG_CTRLZ, WHAT_CTRLZ, w);
            } else if f.ident_has_value() && class.ends_with("content") {
                ctx.violation(SIG_IDENT_VALUE, WHAT_IDENT_VALUE, w);
            } else {
                ctx.violation(&format!("{phase}|bytes|{class}"), &format!("convert_to_git() bytes differ from the blob git stores ({class})"), w);
            }
        }
        (GixStore::RoundTrip(ka, ma), GitStore::Die(kb, mb)) => {
            if ka == kb {
                return true;
            }
            w["gix"] = json!(ma);
            w["git"] = json!(mb);
            ctx.violation(&format!("{phase}|safecrlf|kind-differs|gix-{ka}|git-{kb}"), "both refuse under core.safecrlf=true but for different reasons", w);
        }
        (GixStore::RoundTrip(ka, ma), GitStore::Stored(id, b)) => {
            w["gix"] = json!(ma);
            w["git"] = json!(format!("stores {id}: {}", show(b)));
            ctx.violation(&format!("{phase}|safecrlf|gix-fails-git-stores|{ka}"), "gitoxide refuses (round-trip check) what git stores", w);
        }
        (GixStore::Bytes(a), GitStore::Die(kb, mb)) => {
            w["gix"] = json!(show(a));
            w["git"] = json!(mb);
            if ctrlz && a == src {
                ctx.violation(SIG_CTRLZ, WHAT_CTRLZ, w);
            } else {
                ctx.violation(&format!("{phase}|safecrlf|git-dies-gix-stores|{kb}"), "git refuses under core.safecrlf=true, gitoxide converts", w);
            }
        }
        (GixStore::Err(e), _) => {
            w["gix"] = json!(e);
            w["git"] = json!(match git_res {
                GitStore::Stored(id, _) => format!("stores {id}"),
                GitStore::Die(_, m) => m.clone(),
            });
            let variant: String = e.chars().take_while(|c| c.is_alphanumeric() || *c == '(').collect();
            ctx.violation(&format!("{phase}|error|{variant}"), "convert_to_git() failed with an unexpected error", w);
        }
    }
    false
}

pub fn run(ctx: &mut Ctx) {
    // gix reads the process environment: make it as hermetic as the git oracle
    std::env::set_var("HOME", "/dev/shm/gxv-home");
    std::env::set_var("GIT_CONFIG_NOSYSTEM", "1");
    std::env::set_var("GIT_CONFIG_GLOBAL", "/dev/null");
    std::env::remove_var("XDG_CONFIG_HOME");
    std::env::remove_var("GIT_DIR");
    std::env::remove_var("GIT_WORK_TREE");

    ctx.rule(
        "case = scratch repo with random (core.autocrlf, core.eol, core.safecrlf), per-file attribute sets over \
         text/crlf/eol/ident/binary (+optional `*` line) and 8..24 files of random content (LF/CRLF/mixed/lone CR/NUL/control \
         bytes/ctrl-Z tail/$Id$ and expanded $Id: ..$ forms/empty/no final newline/>8000 bytes/binary-ratio boundary). \
         A: convert_to_git vs `git hash-object -w --stdin-paths` (stored bytes read back from the loose object; safecrlf=true: git dies <=> RoundTrip error of the same kind); \
         B: same with an older blob for the path in the index, oracle `git add`; \
         C: convert_to_worktree vs files written by `git checkout-index -f`. \
         distinct = (phase, attribute set, `*` line, config triple, content class {lf,crlf,lone-cr,nul,ratio-binary,ctrl-z,ident kind,size}, outcome class)",
    );
    ctx.assume("gitoxide's documented deviation is respected: blobs that contain an already expanded `$Id: ..$` are not judged in the to-worktree direction");
    ctx.assume("when git's streaming checkout filter and `git cat-file --filters` disagree on a blob (e.g. `$$Id$`), the case is not judged");
    ctx.assume("core.safecrlf=warn/unset: only the stored bytes are compared (gitoxide's warning is a trace event, not observable through the API)");
    let n = ctx.n(70, 2400);
    ctx.cases("repo", n, one_case);
}
