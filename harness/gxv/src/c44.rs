//! C44 Tree diffs agree with git.
//!
//! Code under test: `gix_diff::tree()` (breadth-first merge-walk) with `gix_diff::tree::Recorder`
//! (no rewrite tracking) on trees written by `git fast-import`, read through `gix_odb`.
//!
//! Oracles:
//!  * G  `git diff-tree -r -t --no-renames --raw -z --no-abbrev --stdin` on the same tree pair: the records
//!       (path, old mode, old id, new mode, new id) must be the same multiset. The blob/link/submodule records
//!       are what plain `-r` prints (primary verdict); `-t` adds the tree entries themselves, compared separately.
//!  * M  apply-and-compare: applying the recorded non-tree changes to the flattened path map of the first
//!       tree (git's own listing: its additions against the empty tree) must give exactly the flattened map of the second tree, and every
//!       deletion/modification must name an existing entry with that mode and id.
//!  * R  `gix_diff::tree_with_rewrites()` with `rewrites: None` must emit the same change list as the plain diff.
use crate::fw::{git, guard, show, Ctx, Rng};
use gix_diff::tree::recorder::Change as RChange;
use gix_hash::ObjectId;
use gix_object::{FindExt, TreeRefIter};
use serde_json::{json, Value};
use std::collections::{BTreeMap, BTreeSet};

pub fn child(_mode: &str) {}

const M_FILE: u32 = 0o100644;
const M_EXE: u32 = 0o100755;
const M_LINK: u32 = 0o120000;
const M_COMMIT: u32 = 0o160000;
const M_TREE: u32 = 0o040000;
const EMPTY_TREE: &str = "4b825dc642cb6eb9a060e54bf8d69288fbee4904";
const NULL: &str = "0000000000000000000000000000000000000000";

// ------------------------------------------------------------------ model of a tree: path -> (mode, payload)

#[derive(Clone, Debug, PartialEq, Eq)]
struct Ent {
    mode: u32,
    /// blob content / link target, or 40 hex for a submodule
    data: Vec<u8>,
}
type Model = BTreeMap<Vec<u8>, Ent>;

/// names chosen so that directory ordering (`name` + '/') matters against siblings
const NAMES: [&[u8]; 16] = [
    b"a", b"a-", b"a.", b"a0", b"a b", b"a+", b"aa", b"ab", b"b", b"b.c", b"b-", b"A", b"z", b"\xc3\xa9", b"a.b", b"a_",
];

fn rand_name(r: &mut Rng) -> Vec<u8> {
    if r.chance(1, 10) {
        let mut n = r.pick(&NAMES).to_vec();
        n.extend_from_slice(*r.pick(&[&b"-"[..], b".", b"0", b"x", b" ", b"~"]));
        n
    } else {
        r.pick(&NAMES).to_vec()
    }
}

fn rand_path(r: &mut Rng, m: &Model) -> Vec<u8> {
    // often extend/replace an existing path to hit file<->dir situations and shared prefixes
    if !m.is_empty() && r.chance(1, 2) {
        let k = m.keys().nth(r.usize(m.len())).unwrap().clone();
        let comps: Vec<&[u8]> = k.split(|&c| c == b'/').collect();
        let keep = r.usize(comps.len() + 1);
        let mut p: Vec<u8> = comps[..keep].join(&b'/');
        if keep == comps.len() && r.bool() {
            return p; // the very same path (type change in place) or becomes a dir below
        }
        if !p.is_empty() {
            p.push(b'/');
        }
        p.extend(rand_name(r));
        if r.chance(1, 3) {
            p.push(b'/');
            p.extend(rand_name(r));
        }
        return p;
    }
    let depth = [0, 0, 1, 1, 2, 3, 4][r.usize(7)];
    let mut p = rand_name(r);
    for _ in 0..depth {
        p.push(b'/');
        p.extend(rand_name(r));
    }
    p
}

fn rand_content(r: &mut Rng) -> Vec<u8> {
    format!("c{}\n", r.below(12)).into_bytes()
}
fn rand_commit(r: &mut Rng) -> Vec<u8> {
    format!("{:040x}", 0x1111u128 * (1 + r.below(6)) as u128).into_bytes()
}
fn rand_ent(r: &mut Rng) -> Ent {
    match r.below(10) {
        0 | 1 => Ent { mode: M_EXE, data: rand_content(r) },
        2 => Ent { mode: M_LINK, data: rand_content(r) },
        3 => Ent { mode: M_COMMIT, data: rand_commit(r) },
        _ => Ent { mode: M_FILE, data: rand_content(r) },
    }
}

/// remove whatever is in the way of `p` (a file at a prefix, or entries below p)
fn make_room(m: &mut Model, p: &[u8]) {
    let mut i = 0;
    while let Some(pos) = p[i..].iter().position(|&c| c == b'/') {
        m.remove(&p[..i + pos]);
        i += pos + 1;
    }
    let mut prefix = p.to_vec();
    prefix.push(b'/');
    let below: Vec<Vec<u8>> = m.keys().filter(|k| k.starts_with(&prefix)).cloned().collect();
    for k in below {
        m.remove(&k);
    }
}

fn dirs_of(m: &Model) -> Vec<Vec<u8>> {
    let mut s = BTreeSet::new();
    for k in m.keys() {
        for (i, &c) in k.iter().enumerate() {
            if c == b'/' {
                s.insert(k[..i].to_vec());
            }
        }
    }
    s.into_iter().collect()
}

fn edit(r: &mut Rng, m: &mut Model) -> &'static str {
    let n = m.len();
    let pick_key = |r: &mut Rng, m: &Model| m.keys().nth(r.usize(m.len())).cloned();
    match r.below(20) {
        0 | 1 | 2 => {
            let p = rand_path(r, m);
            make_room(m, &p);
            m.insert(p, rand_ent(r));
            "add"
        }
        3 | 4 if n > 0 => {
            let k = pick_key(r, m).unwrap();
            m.remove(&k);
            "delete"
        }
        5 | 6 if n > 0 => {
            let k = pick_key(r, m).unwrap();
            let e = m.get_mut(&k).unwrap();
            e.data = if e.mode == M_COMMIT { rand_commit(r) } else { rand_content(r) };
            "modify"
        }
        7 | 8 if n > 0 => {
            // mode-only change (same content): 644 <-> 755, file <-> symlink
            let k = pick_key(r, m).unwrap();
            let e = m.get_mut(&k).unwrap();
            e.mode = match e.mode {
                M_FILE => {
                    if r.chance(1, 3) {
                        M_LINK
                    } else {
                        M_EXE
                    }
                }
                M_EXE => {
                    if r.chance(1, 3) {
                        M_LINK
                    } else {
                        M_FILE
                    }
                }
                M_LINK => M_FILE,
                other => other,
            };
            "chmod"
        }
        9 if n > 0 => {
            // type change with new payload
            let k = pick_key(r, m).unwrap();
            let old = m[&k].mode;
            let mut e = rand_ent(r);
            for _ in 0..4 {
                if e.mode != old {
                    break;
                }
                e = rand_ent(r);
            }
            m.insert(k, e);
            "typechange"
        }
        10 | 11 if n > 0 => {
            // file -> directory of the same name
            let k = pick_key(r, m).unwrap();
            let e = m.remove(&k).unwrap();
            let cnt = 1 + r.usize(3);
            for i in 0..cnt {
                let mut p = k.clone();
                p.push(b'/');
                p.extend(rand_name(r));
                let ent = if i == 0 && r.bool() { e.clone() } else { rand_ent(r) };
                make_room(m, &p);
                m.insert(p, ent);
            }
            "file->dir"
        }
        12 | 13 => {
            // directory -> file/symlink/submodule of the same name
            let ds = dirs_of(m);
            if ds.is_empty() {
                return "noop";
            }
            let d = r.pick(&ds).clone();
            make_room(m, &d);
            m.remove(&d);
            m.insert(d, rand_ent(r));
            "dir->file"
        }
        14 if n > 0 => {
            // rename (shows as delete + add)
            let k = pick_key(r, m).unwrap();
            let e = m.remove(&k).unwrap();
            let p = rand_path(r, m);
            make_room(m, &p);
            m.insert(p, e);
            "rename"
        }
        15 => {
            let ds = dirs_of(m);
            if ds.is_empty() {
                return "noop";
            }
            let d = r.pick(&ds).clone();
            make_room(m, &d);
            "delete-dir"
        }
        16 => {
            // add a directory with several entries, deep
            let mut base = rand_path(r, m);
            make_room(m, &base);
            m.remove(&base);
            base.push(b'/');
            for _ in 0..(2 + r.usize(4)) {
                let mut p = base.clone();
                p.extend(rand_name(r));
                if r.chance(1, 3) {
                    p.push(b'/');
                    p.extend(rand_name(r));
                }
                make_room(m, &p);
                m.insert(p, rand_ent(r));
            }
            "add-dir"
        }
        17 => {
            // rename a whole directory
            let ds = dirs_of(m);
            if ds.is_empty() {
                return "noop";
            }
            let d = r.pick(&ds).clone();
            let mut prefix = d.clone();
            prefix.push(b'/');
            let moved: Vec<(Vec<u8>, Ent)> = m.iter().filter(|(k, _)| k.starts_with(&prefix)).map(|(k, v)| (k[prefix.len()..].to_vec(), v.clone())).collect();
            make_room(m, &d);
            let mut to = rand_path(r, m);
            make_room(m, &to);
            m.remove(&to);
            to.push(b'/');
            for (rest, e) in moved {
                let mut p = to.clone();
                p.extend(rest);
                m.insert(p, e);
            }
            "rename-dir"
        }
        _ => {
            let p = rand_path(r, m);
            make_room(m, &p);
            m.insert(p, rand_ent(r));
            "add"
        }
    }
}

fn fresh_model(r: &mut Rng, size: usize) -> Model {
    let mut m = Model::new();
    for _ in 0..size {
        let p = rand_path(r, &m);
        make_room(&mut m, &p);
        m.insert(p, rand_ent(r));
    }
    m
}

fn fast_import_stream(models: &[Model], branch: &str) -> Vec<u8> {
    let mut s = Vec::new();
    for (i, m) in models.iter().enumerate() {
        s.extend_from_slice(format!("commit refs/heads/{}\nmark :{}\ncommitter C <c@example.com> {} +0000\ndata 0\n", branch, i + 1, 1_700_000_000 + i).as_bytes());
        if i > 0 {
            s.extend_from_slice(format!("from :{}\n", i).as_bytes());
        }
        s.extend_from_slice(b"deleteall\n");
        for (p, e) in m {
            if e.mode == M_COMMIT {
                s.extend_from_slice(format!("M 160000 {} ", String::from_utf8_lossy(&e.data)).as_bytes());
                s.extend_from_slice(p);
                s.push(b'\n');
            } else {
                s.extend_from_slice(format!("M {:o} inline ", e.mode).as_bytes());
                s.extend_from_slice(p);
                s.extend_from_slice(format!("\ndata {}\n", e.data.len()).as_bytes());
                s.extend_from_slice(&e.data);
                s.push(b'\n');
            }
        }
        s.push(b'\n');
        // have fast-import print the root tree id of the commit just made
        s.extend_from_slice(format!("ls :{} \"\"\n", i + 1).as_bytes());
    }
    s
}

// ------------------------------------------------------------------ records

/// (path, old mode, old id, new mode, new id)
type Rec = (Vec<u8>, u32, String, u32, String);

fn rec_status(rec: &Rec) -> &'static str {
    let kind = |m: u32| m & 0o170000;
    if rec.1 == 0 {
        "A"
    } else if rec.3 == 0 {
        "D"
    } else if kind(rec.1) != kind(rec.3) {
        "T"
    } else {
        "M"
    }
}
fn rec_is_tree(rec: &Rec) -> bool {
    rec.1 == M_TREE || rec.3 == M_TREE
}
fn kind_name(m: u32) -> &'static str {
    match m {
        0 => "none",
        M_FILE => "file",
        M_EXE => "exe",
        M_LINK => "link",
        M_COMMIT => "commit",
        M_TREE => "tree",
        _ => "other",
    }
}
fn rec_class(rec: &Rec) -> String {
    if rec.1 != 0 && rec.3 != 0 && rec.2 == rec.4 {
        return "same-id-mode-change".into();
    }
    format!("{}{}", rec_status(rec), if rec_is_tree(rec) { ":tree" } else { "" })
}
fn rec_json(rec: &Rec) -> Value {
    json!({"path": show(&rec.0), "old_mode": format!("{:06o}", rec.1), "old_id": rec.2, "new_mode": format!("{:06o}", rec.3), "new_id": rec.4, "status": rec_status(rec)})
}

fn from_gix(c: &RChange) -> Rec {
    match c {
        RChange::Addition { entry_mode, oid, path, .. } => (path.to_vec(), 0, NULL.into(), entry_mode.0 as u32, oid.to_string()),
        RChange::Deletion { entry_mode, oid, path, .. } => (path.to_vec(), entry_mode.0 as u32, oid.to_string(), 0, NULL.into()),
        RChange::Modification { previous_entry_mode, previous_oid, entry_mode, oid, path } => {
            (path.to_vec(), previous_entry_mode.0 as u32, previous_oid.to_string(), entry_mode.0 as u32, oid.to_string())
        }
    }
}

/// parse `git diff-tree --raw -z --stdin` output into per-pair record lists keyed by "a b"
fn parse_git_raw(out: &[u8]) -> Result<BTreeMap<String, Vec<Rec>>, String> {
    let mut res: BTreeMap<String, Vec<Rec>> = BTreeMap::new();
    let mut cur: Option<String> = None;
    let mut i = 0;
    while i < out.len() {
        if out[i] == b':' {
            let end = out[i..].iter().position(|&c| c == 0).ok_or("unterminated meta")? + i;
            let meta = std::str::from_utf8(&out[i + 1..end]).map_err(|e| e.to_string())?;
            let f: Vec<&str> = meta.split(' ').collect();
            if f.len() != 5 {
                return Err(format!("bad meta {meta:?}"));
            }
            let pend = out[end + 1..].iter().position(|&c| c == 0).ok_or("unterminated path")? + end + 1;
            let path = out[end + 1..pend].to_vec();
            let om = u32::from_str_radix(f[0], 8).map_err(|e| e.to_string())?;
            let nm = u32::from_str_radix(f[1], 8).map_err(|e| e.to_string())?;
            let rec: Rec = (path, om, f[2].to_string(), nm, f[3].to_string());
            let st = f[4];
            if st != rec_status(&rec) {
                return Err(format!("status letter {st} unexpected for {meta:?}"));
            }
            res.get_mut(cur.as_ref().ok_or("record before header")?).unwrap().push(rec);
            i = pend + 1;
        } else {
            // header: "<tree> <tree>\n"
            let end = out[i..].iter().position(|&c| c == b'\n').ok_or("unterminated header")? + i;
            let h = std::str::from_utf8(&out[i..end]).map_err(|e| e.to_string())?.to_string();
            if h.len() != 81 {
                return Err(format!("bad header {h:?}"));
            }
            res.entry(h.clone()).or_default();
            cur = Some(h);
            i = end + 1;
        }
    }
    Ok(res)
}

fn tree_iter<'a>(odb: &gix_odb::Handle, id: &str, buf: &'a mut Vec<u8>) -> Result<TreeRefIter<'a>, String> {
    if id == EMPTY_TREE {
        buf.clear();
        return Ok(TreeRefIter::from_bytes(&buf[..]));
    }
    let oid = ObjectId::from_hex(id.as_bytes()).map_err(|e| e.to_string())?;
    odb.find_tree_iter(&oid, buf).map_err(|e| e.to_string())
}

fn sibling_class(flat_a: &BTreeMap<Vec<u8>, (u32, String)>, flat_b: &BTreeMap<Vec<u8>, (u32, String)>) -> (bool, bool) {
    // is there a directory `d` with a sibling `d<c>…` where c sorts before '/' (resp. after '/')?
    let mut names: BTreeSet<&[u8]> = BTreeSet::new();
    let mut dirs: BTreeSet<&[u8]> = BTreeSet::new();
    for k in flat_a.keys().chain(flat_b.keys()) {
        names.insert(k);
        for (i, &c) in k.iter().enumerate() {
            if c == b'/' {
                dirs.insert(&k[..i]);
                names.insert(&k[..i]);
            }
        }
    }
    let (mut before, mut after) = (false, false);
    for d in &dirs {
        for n in names.range::<[u8], _>((std::ops::Bound::Excluded(*d), std::ops::Bound::Unbounded)) {
            if !n.starts_with(d) {
                break;
            }
            if n[d.len()..].contains(&b'/') {
                continue;
            }
            match n[d.len()] {
                c if c < b'/' => before = true,
                c if c > b'/' => after = true,
                _ => {}
            }
        }
    }
    (before, after)
}

/// state shared by the scenarios of one run (a cache only: which repository directory to import into)
#[derive(Default)]
struct Shared {
    repo: Option<std::path::PathBuf>,
    used: usize,
    serial: usize,
}

fn scenario(ctx: &mut Ctx, r: &mut Rng, sh: &mut Shared) {
    if sh.repo.is_none() || sh.used >= 25 {
        if let Some(old) = sh.repo.take() {
            let _ = std::fs::remove_dir_all(old);
        }
        let d = ctx.dir(&format!("repo{}", sh.serial));
        sh.serial += 1;
        sh.used = 0;
        if let Err(e) = git::init(&d, true) {
            ctx.inconclusive(&format!("git init failed: {e}"));
            return;
        }
        ctx.count("git_calls");
        sh.repo = Some(d);
    }
    let dir = sh.repo.clone().expect("set above");
    let branch = format!("s{}", sh.used);
    sh.used += 1;
    let n_commits = if ctx.quick() { 40 + r.usize(20) } else { 40 + r.usize(50) };
    let start_size = [0usize, 1, 3, 8, 20, 40][r.usize(6)];
    let mut models: Vec<Model> = Vec::with_capacity(n_commits);
    let mut edits_of: Vec<Vec<&'static str>> = Vec::new();
    let mut m = fresh_model(r, start_size);
    models.push(m.clone());
    edits_of.push(vec!["initial"]);
    for _ in 1..n_commits {
        let mut names = Vec::new();
        match r.below(24) {
            0 => {
                let sz = r.usize(30);
                m = fresh_model(r, sz);
                names.push("unrelated");
            }
            1 => {
                m = Model::new();
                names.push("empty");
            }
            _ => {
                let max_edits = if r.chance(1, 5) { 14 } else { 4 };
                for _ in 0..(1 + r.usize(max_edits)) {
                    names.push(edit(r, &mut m));
                }
            }
        }
        models.push(m.clone());
        edits_of.push(names);
    }
    let t0 = std::time::Instant::now();
    let stream = fast_import_stream(&models, &branch);
    let trees: Vec<String> = match git::run_in(&dir, &["-c", "fastimport.unpackLimit=0", "fast-import", "--quiet", "--date-format=raw"], &stream) {
        Ok(o) if o.ok => {
            // one "040000 tree <id>\t" line per commit
            String::from_utf8_lossy(&o.stdout).lines().filter_map(|l| l.strip_prefix("040000 tree ")).map(|l| l.trim_end().to_string()).collect()
        }
        Ok(o) => {
            ctx.inconclusive(&format!("fast-import failed: {}", o.err_text().lines().next().unwrap_or("")));
            return;
        }
        Err(e) => {
            ctx.inconclusive(&format!("fast-import spawn failed: {e}"));
            return;
        }
    };
    ctx.count("git_calls");
    ctx.count_n("ms_in:git fast-import", t0.elapsed().as_millis() as u64);
    if trees.len() != models.len() || trees.iter().any(|t| t.len() != 40) {
        ctx.inconclusive("fast-import did not print one root tree per commit");
        return;
    }
    // pairs
    let mut pairs: Vec<(usize, usize)> = Vec::new();
    for i in 0..trees.len() - 1 {
        pairs.push((i, i + 1));
        if r.chance(1, 3) {
            pairs.push((i + 1, i));
        }
    }
    for _ in 0..trees.len() {
        let (a, b) = (r.usize(trees.len()), r.usize(trees.len()));
        pairs.push((a, b));
    }
    let mut seen = BTreeSet::new();
    pairs.retain(|(a, b)| trees[*a] != trees[*b] && seen.insert((trees[*a].clone(), trees[*b].clone())));
    if pairs.is_empty() {
        ctx.count("scenario_without_pairs");
        return;
    }
    // every tree is also diffed against the empty tree: git's additions are its flattened listing
    let distinct_trees: BTreeSet<&String> = trees.iter().filter(|t| t.as_str() != EMPTY_TREE).collect();
    let mut stdin: String = distinct_trees.iter().map(|t| format!("{EMPTY_TREE} {t}\n")).collect();
    for (a, b) in &pairs {
        if !(trees[*a] == EMPTY_TREE && distinct_trees.contains(&trees[*b])) {
            stdin.push_str(&format!("{} {}\n", trees[*a], trees[*b]));
        }
    }
    let t1 = std::time::Instant::now();
    let git_out = match git::run_in(&dir, &["diff-tree", "-r", "-t", "--no-renames", "--raw", "-z", "--no-abbrev", "--stdin"], stdin.as_bytes()) {
        Ok(o) if o.ok => o.stdout,
        Ok(o) => {
            ctx.inconclusive(&format!("git diff-tree failed: {}", o.err_text().lines().next().unwrap_or("")));
            return;
        }
        Err(e) => {
            ctx.inconclusive(&format!("git diff-tree spawn failed: {e}"));
            return;
        }
    };
    ctx.count("git_calls");
    ctx.count_n("ms_in:git diff-tree", t1.elapsed().as_millis() as u64);
    let t2 = std::time::Instant::now();
    let git_recs = match parse_git_raw(&git_out) {
        Ok(g) => g,
        Err(e) => {
            ctx.inconclusive(&format!("cannot parse git diff-tree output: {e}"));
            return;
        }
    };
    // flattened maps (non-tree entries) from git
    let mut flats: BTreeMap<String, BTreeMap<Vec<u8>, (u32, String)>> = BTreeMap::new();
    flats.insert(EMPTY_TREE.into(), BTreeMap::new());
    for t in &distinct_trees {
        let Some(recs) = git_recs.get(&format!("{EMPTY_TREE} {t}")) else {
            ctx.inconclusive("git diff-tree printed no listing of a tree against the empty tree");
            return;
        };
        let mut f = BTreeMap::new();
        for rec in recs.iter().filter(|r| !rec_is_tree(r)) {
            if rec.1 != 0 {
                ctx.inconclusive("git diff-tree against the empty tree printed a non-addition");
                return;
            }
            f.insert(rec.0.clone(), (rec.3, rec.4.clone()));
        }
        flats.insert((*t).clone(), f);
    }
    // sanity of the generator (not a verdict): git's flattened tree has as many entries as the model
    for (t, m) in trees.iter().zip(&models) {
        if flats[t].len() != m.len() {
            ctx.inconclusive("generator model and git listing disagree on entry count");
            return;
        }
    }
    let odb = match gix_odb::at(dir.join("objects")) {
        Ok(o) => o,
        Err(e) => {
            ctx.inconclusive(&format!("gix_odb::at failed: {e}"));
            return;
        }
    };
    let mut state = gix_diff::tree::State::default();
    let mut platform = gix_diff::blob::Platform::new(
        Default::default(),
        gix_diff::blob::Pipeline::new(Default::default(), Default::default(), Vec::new(), Default::default()),
        Default::default(),
        gix_worktree::Stack::new(
            &dir,
            gix_worktree::stack::State::AttributesStack(gix_worktree::stack::state::Attributes::default()),
            Default::default(),
            Vec::new(),
            Vec::new(),
        ),
    );

    for (a, b) in pairs {
        let (ta, tb) = (&trees[a], &trees[b]);
        let key = format!("{ta} {tb}");
        let Some(want_all) = git_recs.get(&key) else {
            ctx.inconclusive("git diff-tree printed no section for a pair of different trees");
            continue;
        };
        let witness = |extra: Value| {
            json!({
                "tree_a": ta, "tree_b": tb,
                "a": flats[ta].iter().map(|(p, (m, id))| format!("{:06o} {} {}", m, &id[..8], show(p))).collect::<Vec<_>>(),
                "b": flats[tb].iter().map(|(p, (m, id))| format!("{:06o} {} {}", m, &id[..8], show(p))).collect::<Vec<_>>(),
                "edits_leading_to_b": if b == a + 1 { json!(edits_of[b]) } else { Value::Null },
                "detail": extra,
            })
        };
        // ---- run gitoxide
        let (mut buf_a, mut buf_b) = (Vec::new(), Vec::new());
        let (ia, ib) = match (tree_iter(&odb, ta, &mut buf_a), tree_iter(&odb, tb, &mut buf_b)) {
            (Ok(x), Ok(y)) => (x, y),
            (Err(e), _) | (_, Err(e)) => {
                ctx.inconclusive(&format!("cannot read root tree through gix_odb: {e}"));
                continue;
            }
        };
        ctx.eval();
        ctx.count("pairs");
        let res = guard(|| {
            let mut rec = gix_diff::tree::Recorder::default();
            gix_diff::tree(ia, ib, &mut state, &odb, &mut rec).map(|_| rec.records)
        });
        let records = match res {
            Err(p) => {
                ctx.panic_violation("gix_diff::tree", &p, "diff", witness(json!({"panic": p.message})));
                state = Default::default();
                continue;
            }
            Ok(Err(e)) => {
                ctx.violation("diff|error", "gix_diff::tree failed on trees written by git", witness(json!({"error": e.to_string()})));
                continue;
            }
            Ok(Ok(recs)) => recs,
        };
        let got_all: Vec<Rec> = records.iter().map(from_gix).collect();

        // ---- G: compare with git, blobs first (what `-r` prints), then tree entries (`-t`)
        let mut had_diff = false;
        for trees_only in [false, true] {
            let mut want: Vec<&Rec> = want_all.iter().filter(|r| rec_is_tree(r) == trees_only).collect();
            let mut got: Vec<&Rec> = got_all.iter().filter(|r| rec_is_tree(r) == trees_only).collect();
            want.sort();
            got.sort();
            ctx.count_n(if trees_only { "records_compared:tree-entries" } else { "records_compared:non-tree" }, want.len() as u64);
            if want == got {
                continue;
            }
            had_diff = true;
            let wset: BTreeSet<&Rec> = want.iter().copied().collect();
            let gset: BTreeSet<&Rec> = got.iter().copied().collect();
            let missing: Vec<&Rec> = want.iter().copied().filter(|r| !gset.contains(r)).collect();
            let extra: Vec<&Rec> = got.iter().copied().filter(|r| !wset.contains(r)).collect();
            let detail = json!({
                "git_only": missing.iter().take(8).map(|r| rec_json(r)).collect::<Vec<_>>(),
                "gix_only": extra.iter().take(8).map(|r| rec_json(r)).collect::<Vec<_>>(),
                "git_records": want.len(), "gix_records": got.len(),
            });
            let mut classes: BTreeSet<String> = BTreeSet::new();
            for r in &missing {
                classes.insert(format!("diff-tree|missing-in-gix|{}", rec_class(r)));
            }
            for r in &extra {
                classes.insert(format!("diff-tree|only-in-gix|{}", rec_class(r)));
            }
            if classes.is_empty() {
                classes.insert("diff-tree|duplicate-records".into());
            }
            for c in classes {
                ctx.violation(&c, "change set differs from git diff-tree -r -t --no-renames --raw", witness(detail.clone()));
            }
        }

        // ---- M: apply to A's flattened map, compare with B's
        ctx.eval();
        let mut map = flats[ta].clone();
        let mut apply_problem: Option<(&'static str, &Rec)> = None;
        for rec in got_all.iter().filter(|r| !rec_is_tree(r)) {
            let (p, om, oid, nm, nid) = rec;
            if *om != 0 {
                match map.get(p) {
                    Some((m, id)) if m == om && id == oid => {}
                    _ => {
                        apply_problem.get_or_insert(("source-entry-absent-or-different", rec));
                    }
                }
            } else if map.contains_key(p) {
                apply_problem.get_or_insert(("addition-over-existing-entry", rec));
            }
            if *nm == 0 {
                map.remove(p);
            } else {
                map.insert(p.clone(), (*nm, nid.clone()));
            }
        }
        if let Some((what, rec)) = apply_problem {
            had_diff = true;
            ctx.violation(&format!("apply|{what}"), "a recorded change does not apply to the first tree", witness(json!({"record": rec_json(rec)})));
        }
        if map != flats[tb] {
            had_diff = true;
            let fb = &flats[tb];
            let first = map.iter().find(|(k, v)| fb.get(*k) != Some(*v)).map(|(k, _)| k.clone()).or_else(|| fb.keys().find(|k| !map.contains_key(*k)).cloned());
            let class = match &first {
                Some(k) => match (map.get(k), fb.get(k)) {
                    (Some((_, i1)), Some((_, i2))) if i1 == i2 => "mode-differs",
                    (Some(_), Some(_)) => "id-differs",
                    (Some(_), None) => "entry-not-removed",
                    _ => "entry-not-added",
                },
                None => "?",
            };
            ctx.violation(
                &format!("apply|result-differs|{class}"),
                "applying the recorded changes to the first tree does not yield the second tree",
                witness(json!({"path": first.as_deref().map(show), "after_apply": first.as_ref().and_then(|k| map.get(k)).map(|(m, id)| format!("{m:06o} {id}")), "in_b": first.as_ref().and_then(|k| fb.get(k)).map(|(m, id)| format!("{m:06o} {id}"))})),
            );
        }

        // ---- R: tree_with_rewrites without rewrites == plain
        {
            let (mut buf_a, mut buf_b) = (Vec::new(), Vec::new());
            if let (Ok(ia), Ok(ib)) = (tree_iter(&odb, ta, &mut buf_a), tree_iter(&odb, tb, &mut buf_b)) {
                ctx.eval();
                let res = guard(|| {
                    let mut out: Vec<Rec> = Vec::new();
                    let mut rewrites_seen = false;
                    let r = gix_diff::tree_with_rewrites(
                        ia,
                        ib,
                        &mut platform,
                        &mut state,
                        &odb,
                        |c| -> Result<_, std::convert::Infallible> {
                            use gix_diff::tree_with_rewrites::ChangeRef as C;
                            match c {
                                C::Addition { location, entry_mode, id, .. } => out.push((location.to_vec(), 0, NULL.into(), entry_mode.0 as u32, id.to_string())),
                                C::Deletion { location, entry_mode, id, .. } => out.push((location.to_vec(), entry_mode.0 as u32, id.to_string(), 0, NULL.into())),
                                C::Modification { location, previous_entry_mode, previous_id, entry_mode, id } => {
                                    out.push((location.to_vec(), previous_entry_mode.0 as u32, previous_id.to_string(), entry_mode.0 as u32, id.to_string()))
                                }
                                C::Rewrite { .. } => rewrites_seen = true,
                            }
                            Ok(gix_diff::tree_with_rewrites::Action::Continue)
                        },
                        gix_diff::tree_with_rewrites::Options { location: Some(gix_diff::tree::recorder::Location::Path), rewrites: None },
                    );
                    (r.map(|o| o.is_some()).map_err(|e| e.to_string()), out, rewrites_seen)
                });
                match res {
                    Err(p) => {
                        ctx.panic_violation("gix_diff::tree_with_rewrites", &p, "rewrites-off", witness(json!({"panic": p.message})));
                        state = Default::default();
                    }
                    Ok((Err(e), _, _)) => ctx.violation("rewrites-off|error", "tree_with_rewrites(rewrites: None) failed", witness(json!({"error": e}))),
                    Ok((Ok(outcome), out, rewrites_seen)) => {
                        ctx.count("rewrites_off_compared");
                        if rewrites_seen || outcome {
                            ctx.violation("rewrites-off|rewrite-emitted", "tree_with_rewrites(rewrites: None) emitted a rewrite or a tracking outcome", witness(Value::Null));
                        } else if out != got_all {
                            let mut a = out.clone();
                            let mut b = got_all.clone();
                            a.sort();
                            b.sort();
                            let class = if a == b { "order" } else { "content" };
                            ctx.violation(
                                &format!("rewrites-off|differs-from-plain|{class}"),
                                "tree_with_rewrites(rewrites: None) does not emit the change list of the plain tree diff",
                                witness(json!({"plain": got_all.iter().take(12).map(rec_json).collect::<Vec<_>>(), "with_rewrites_off": out.iter().take(12).map(rec_json).collect::<Vec<_>>()})),
                            );
                        }
                    }
                }
            }
        }

        // ---- evidence
        let mut kinds: BTreeMap<String, u8> = BTreeMap::new();
        let mut depth = 0;
        for rec in want_all {
            let k = format!("{}:{}>{}", rec_status(rec), kind_name(rec.1), kind_name(rec.3));
            ctx.count(&format!("kind:{k}"));
            if rec.1 != 0 && rec.3 != 0 && rec.2 == rec.4 {
                ctx.count("kind:same-id-mode-change");
            }
            let e = kinds.entry(k).or_insert(0);
            *e = (*e + 1).min(2);
            depth = depth.max(rec.0.iter().filter(|&&c| c == b'/').count());
        }
        let sib = sibling_class(&flats[ta], &flats[tb]);
        if sib.0 {
            ctx.count("pairs_with_dir_sibling_sorting_before_slash");
        }
        if sib.1 {
            ctx.count("pairs_with_dir_sibling_sorting_after_slash");
        }
        ctx.distinct((kinds.into_iter().collect::<Vec<_>>(), depth.min(5), sib));
        if !had_diff && ctx.want_sample() && want_all.len() >= 3 {
            ctx.sample(json!({
                "tree_a": ta, "tree_b": tb,
                "records": want_all.iter().take(10).map(rec_json).collect::<Vec<_>>(),
                "records_total": want_all.len(),
            }));
        }
    }
    ctx.count_n("ms_in:gitoxide diffs and comparison", t2.elapsed().as_millis() as u64);
}

pub fn run(ctx: &mut Ctx) {
    ctx.rule(
        "case = one bare repository written by git fast-import: a chain of 40..90 commits whose trees come from a path model edited by \
         add/delete/modify, mode-only change (644<->755, file<->symlink with the same content), type change, file->dir, dir->file/link/submodule, \
         rename, directory add/delete/rename, unrelated and empty trees; names are chosen around '/' ordering (a, a-, a., a0, a b, a+ next to \
         directory a). Pairs = consecutive, some reversed, and random pairs of the chain. distinct = (set of git record kinds \
         status:oldkind>newkind with multiplicity capped at 2, max depth, directory-sibling ordering class)",
    );
    ctx.assume("git diff-tree -r -t: its non-tree records are what plain -r prints; tree-entry records are compared separately");
    let n = ctx.n(8, 300);
    let mut shared = Shared::default();
    ctx.cases("scenarios", n, |ctx, r| scenario(ctx, r, &mut shared));
}
