//! Pure in-memory workloads re-run under Miri (UB + data-race interpreter).
//! usage: gxv-miri <ID> <seed> <scale>
//! prints one line of JSON with what was observed; a property violation found by the
//! shared oracle prints `VIOLATION <signature> <what>`; UB is reported by Miri itself.
#[path = "../../gxv/src/c51_core.rs"]
mod c51_core;

fn main() {
    let args: Vec<String> = std::env::args().collect();
    let id = args.get(1).map(String::as_str).unwrap_or("");
    let seed: u64 = args.get(2).and_then(|s| s.parse().ok()).unwrap_or(1);
    let scale: u64 = args.get(3).and_then(|s| s.parse().ok()).unwrap_or(1);
    let mut report = |sig: &str, what: String| println!("VIOLATION {sig} {what}");
    match id {
        "C51" => {
            let st = c51_core::small_instances(seed, scale, &mut report);
            println!("STATS {}", st);
        }
        _ => {
            eprintln!("unknown id {id}");
            std::process::exit(3);
        }
    }
}
