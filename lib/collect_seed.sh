#!/bin/bash
# usage: lib/collect_seed.sh <ID> <name>   copies /tmp/mut/<ID>/gxv-seed into /verif/seeded/<name>/
ID=$1; NAME=${2:-$1}
S=/tmp/mut/$ID/gxv-seed; D=/verif/seeded/$NAME
mkdir -p $D
cp $S/patch.diff $D/patch.diff
cp $S/verify.sh $D/verify.sh 2>/dev/null
rm -rf $D/demo; rsync -a --exclude target --exclude Cargo.lock $S/demo/ $D/demo/ 2>/dev/null
cp $S/meta.json $D/seeder-meta.json
echo "$NAME collected: $(wc -l < $D/patch.diff) patch lines"
