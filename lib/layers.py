"""Extra observation layers (Miri, sanitizer builds, syscall injection). Each returns
{name, coverage, evaluations, violations:[{signature, what, replay, count}], inconclusive:[...]}.
A tool failure is reported as inconclusive, never as a violation."""
import os, subprocess, json, time


def setup(root):
    return True


def run(root, pid, tier, seed, layer):
    kind = layer["kind"]
    fn = globals().get("layer_" + kind)
    if fn is None:
        return {"name": kind, "inconclusive": ["unknown layer kind %s" % kind]}
    return fn(root, pid, tier, seed, layer)


# ---------------------------------------------------------------- Miri

import re, concurrent.futures, signal

HARNESS = lambda root: os.path.join(root, "harness")


def _miri_env(root, seed, extra_flags=""):
    e = dict(os.environ)
    e["CARGO_NET_OFFLINE"] = "true"
    e["CARGO_TARGET_DIR"] = os.path.join(root, ".build", "miri")
    e["MIRIFLAGS"] = "-Zmiri-disable-isolation -Zmiri-tree-borrows -Zmiri-seed=%d %s" % (seed, extra_flags)
    e.setdefault("CARGO_TERM_COLOR", "never")
    return e


def _miri_one(root, pid, mseed, vseed, scale, timeout, extra_flags):
    cmd = ["cargo", "+nightly", "miri", "run", "--offline", "-q", "-p", "gxv-miri", "--", pid, str(vseed), str(scale)]
    t0 = time.time()
    try:
        p = subprocess.run(cmd, cwd=HARNESS(root), env=_miri_env(root, mseed, extra_flags), stdout=subprocess.PIPE,
                           stderr=subprocess.PIPE, text=True, timeout=timeout, start_new_session=True)
        return mseed, p.returncode, p.stdout, p.stderr, time.time() - t0
    except subprocess.TimeoutExpired as ex:
        return mseed, "timeout", (ex.stdout or b"").decode() if isinstance(ex.stdout, bytes) else (ex.stdout or ""), "", time.time() - t0


def layer_miri(root, pid, tier, seed, layer):
    """Runs the pure in-memory part of a monitor under Miri (Tree Borrows, data-race detection on),
    once per Miri seed (each seed = another schedule / allocation layout)."""
    nseeds = layer.get("seeds_quick", 3) if tier == "quick" else layer.get("seeds_thorough", 24)
    scale = layer.get("scale_quick", 1) if tier == "quick" else layer.get("scale_thorough", 2)
    timeout = layer.get("timeout", 1500)
    flags = layer.get("flags", "")
    out = {"name": "miri", "coverage": {}, "violations": [], "inconclusive": [], "evaluations": 0}
    results = []
    # the first run also builds (cargo miri has no separate build command); the others then run in parallel
    results.append(_miri_one(root, pid, seed * 1000, seed * 7919, scale, timeout + 1800, flags))
    if results[0][1] not in (0, "timeout") and "Undefined Behavior" not in results[0][3] and "could not compile" in results[0][3]:
        out["inconclusive"].append("miri build failed: " + results[0][3][-800:])
        return out
    with concurrent.futures.ThreadPoolExecutor(max_workers=min(8, max(1, nseeds - 1))) as ex:
        futs = [ex.submit(_miri_one, root, pid, seed * 1000 + k, seed * 7919 + k, scale, timeout, flags) for k in range(1, nseeds)]
        for f in futs:
            results.append(f.result())
    stats = []
    clean = 0
    os.makedirs(os.path.join(root, "replays", pid), exist_ok=True)
    for mseed, rc, so, se, wall in results:
        for line in so.splitlines():
            if line.startswith("STATS "):
                try:
                    stats.append(json.loads(line[6:]))
                except Exception:
                    pass
            elif line.startswith("VIOLATION "):
                _, sig, what = line.split(" ", 2)
                rp = os.path.join(root, "replays", pid, "miri-oracle-%d.json" % mseed)
                json.dump({"property": pid, "layer": "miri", "miri_seed": mseed, "signature": sig, "what": what}, open(rp, "w"), indent=1)
                out["violations"].append({"signature": sig, "what": what, "replay": rp, "count": 1})
        if rc == "timeout":
            out["inconclusive"].append("miri seed %d timed out after %ds" % (mseed, timeout))
            continue
        if "Undefined Behavior" in se or "error: unsupported operation" in se or (rc != 0 and "error" in se):
            m = re.search(r"error: (Undefined Behavior: [^\n]*|[^\n]*)", se)
            kind = m.group(1) if m else "miri error"
            if kind.startswith("unsupported operation") or "unsupported operation" in kind:
                out["inconclusive"].append("miri seed %d: %s" % (mseed, kind[:200]))
                continue
            kind_norm = re.sub(r"alloc\d+|<\d+>|0x[0-9a-f]+|thread `[^`]*`|\d+", "N", kind)[:120]
            site = "?"
            for sm in re.finditer(r"--> (/repo/[^\s:]+):(\d+):\d+", se):
                site = "%s:%s" % (sm.group(1)[len("/repo/"):], sm.group(2))
                break
            sig = "miri|%s|%s" % (site, kind_norm)
            rp = os.path.join(root, "replays", pid, "miri-%d.txt" % mseed)
            open(rp, "w").write("MIRIFLAGS=%s\ncargo +nightly miri run -p gxv-miri -- %s\n\n%s" % (
                _miri_env(root, mseed, flags)["MIRIFLAGS"], pid, se[-6000:]))
            if not any(v["signature"] == sig for v in out["violations"]):
                out["violations"].append({"signature": sig, "what": kind[:300], "replay": rp, "count": 1})
            else:
                for v in out["violations"]:
                    if v["signature"] == sig:
                        v["count"] += 1
        elif rc == 0:
            clean += 1
        else:
            out["inconclusive"].append("miri seed %d exited %s: %s" % (mseed, rc, se[-300:]))
    agg = {"seeds_run": len(results), "seeds_clean": clean,
           "flags": "-Zmiri-tree-borrows (data-race detector on, isolation off)"}
    for key in ("runs", "items", "early_stops"):
        if stats and key in stats[0]:
            agg[key] = sum(s.get(key, 0) for s in stats)
    if stats and "distinct_schedules" in stats[0]:
        agg["distinct_schedules_per_seed"] = [s.get("distinct_schedules", 0) for s in stats]
    if stats:
        agg["per_seed_sample"] = stats[0]
    out["coverage"] = agg
    out["evaluations"] = agg.get("runs", 0)
    return out


def layer_miri_gxv(root, pid, tier, seed, layer):
    """Runs the monitor itself (gxv CNN) under Miri on a small scale. x86_64 cannot be used: formatting an
    object id reaches faster-hex's cpuid inline assembly, which Miri cannot interpret; the aarch64 target
    has no such path (Miri interprets any target from rust-src). Monitors skip git/file-system parts
    when GXV_NO_FS=1 / cfg!(miri)."""
    nseeds = layer.get("seeds_quick", 1) if tier == "quick" else layer.get("seeds_thorough", 4)
    budget = layer.get("budget_quick", 60) if tier == "quick" else layer.get("budget_thorough", 300)
    out = {"name": "miri_gxv", "coverage": {}, "violations": [], "inconclusive": [], "evaluations": 0}
    resdir = os.path.join(root, ".build", "results")
    os.makedirs(resdir, exist_ok=True)
    os.makedirs(os.path.join(root, "replays", pid), exist_ok=True)

    def one(k):
        res = os.path.join(resdir, "miri-%s-%d-%d.json" % (pid, os.getpid(), k))
        e = _miri_env(root, seed * 1000 + k, layer.get("flags", ""))
        e.update({"GXV_BUDGET_S": str(budget), "GXV_SCALE": str(layer.get("scale", 2)), "GXV_NO_FS": "1", "GXV_MIRI": "1",
                  "GXV_REPLAY_DIR": os.path.join(root, "replays", pid)})
        cmd = ["cargo", "+nightly", "miri", "run", "--offline", "-q", "--target", "aarch64-unknown-linux-gnu", "-p", "gxv", "--",
               pid, "--tier", "quick", "--seed", str(seed * 7919 + k), "--out", res]
        try:
            p = subprocess.run(cmd, cwd=HARNESS(root), env=e, stdout=subprocess.PIPE, stderr=subprocess.PIPE, text=True,
                               timeout=budget * 6 + 3600, start_new_session=True)
            rc, se = p.returncode, p.stderr
        except subprocess.TimeoutExpired:
            rc, se = "timeout", ""
        doc = None
        if os.path.exists(res):
            try:
                doc = json.load(open(res))
            except Exception:
                pass
            os.remove(res)
        return k, rc, se, doc

    results = [one(0)]
    if nseeds > 1:
        with concurrent.futures.ThreadPoolExecutor(max_workers=min(6, nseeds - 1)) as ex:
            results += [f.result() for f in [ex.submit(one, k) for k in range(1, nseeds)]]
    clean = 0
    evals = 0
    for k, rc, se, doc in results:
        if rc == "timeout":
            out["inconclusive"].append("miri run %d timed out" % k)
            continue
        if "Undefined Behavior" in se:
            m = re.search(r"error: (Undefined Behavior: [^\n]*)", se)
            kind = m.group(1) if m else "Undefined Behavior"
            kind_norm = re.sub(r"alloc\d+|<\d+>|0x[0-9a-f]+|thread `[^`]*`|\d+", "N", kind)[:120]
            site = "?"
            for sm in re.finditer(r"--> (/repo/[^\s:]+):(\d+):\d+", se):
                site = "%s:%s" % (sm.group(1)[len("/repo/"):], sm.group(2))
                break
            sig = "miri|%s|%s" % (site, kind_norm)
            rp = os.path.join(root, "replays", pid, "miri-gxv-%d.txt" % k)
            open(rp, "w").write(se[-8000:])
            if not any(v["signature"] == sig for v in out["violations"]):
                out["violations"].append({"signature": sig, "what": kind[:300], "replay": rp, "count": 1})
            continue
        if "unsupported operation" in se and doc is None:
            m = re.search(r"error: unsupported operation: ([^\n]*)", se)
            out["inconclusive"].append("miri cannot interpret this workload: %s" % (m.group(1)[:160] if m else "?"))
            continue
        if doc is None:
            out["inconclusive"].append("miri run %d produced no result (rc=%s): %s" % (k, rc, se[-300:]))
            continue
        clean += 1
        evals += doc.get("evaluations", 0)
        for v in doc.get("violations", []):
            v = dict(v)
            if not any(x["signature"] == v["signature"] for x in out["violations"]):
                out["violations"].append(v)
        for r in doc.get("inconclusive", []):
            out["inconclusive"].append("under miri: " + r)
    out["coverage"] = {"runs": len(results), "runs_without_ub_report": clean, "evaluations_under_miri": evals,
                       "target": "aarch64-unknown-linux-gnu", "flags": "-Zmiri-tree-borrows, isolation off"}
    out["evaluations"] = evals
    return out


# ---------------------------------------------------------------- valgrind memcheck

def _first_repo_frame(block):
    """(site, function) of the innermost frame under /repo, else of the innermost frame that is neither std nor harness"""
    fallback = None
    for line in block.splitlines():
        m = re.search(r"\(([^()]+\.(?:rs|c)):(\d+)\)", line)
        if not m or "/rustc/" in m.group(1) or "/verif/harness/" in m.group(1):
            continue
        fn = re.search(r"(?:at|by) 0x[0-9A-F]+: (.+?) \(", line)
        path = m.group(1)
        k = path.find("/repo/")
        hit = ("%s:%s" % (path[k + 6:] if k >= 0 else path.split("/registry/src/")[-1], m.group(2)), fn.group(1)[:80] if fn else "?")
        if k >= 0:
            return hit
        fallback = fallback or hit
    return fallback or ("?", "?")


def _memcheck_errors(txt):
    """error blocks of a memcheck text log: a headline followed by `at 0x..`/`by 0x..` frames"""
    res = []
    for b in re.split(r"\n==\d+== \n", txt):
        lines = [re.sub(r"^==\d+== ?", "", l) for l in b.splitlines() if re.match(r"^==\d+==", l)]
        while lines and re.match(r"Thread \d+.*:$", lines[0].strip()):
            lines = lines[1:]
        if len(lines) < 2 or not re.match(r"\s+at 0x", lines[1]):
            continue
        kind = re.sub(r"\d+", "N", lines[0].strip())[:80]
        if kind.startswith(("HEAP SUMMARY", "ERROR SUMMARY", "For ", "Use ", "Warning", "Thread ")):
            continue
        site, fn = _first_repo_frame("\n".join(lines[1:]))
        res.append((kind, site, fn, lines))
    return res


def layer_memcheck(root, pid, tier, seed, layer):
    """Runs the monitor binary itself (the same `gxv CNN` workload, scaled down) under valgrind memcheck;
    children that are gxv workers are traced too, git and the shell are not. Every memcheck error context is a
    violation keyed by error kind and the first frame that is neither std nor the harness. The oracle verdicts
    of the run are merged as well (the workload is the monitor's own)."""
    gxv = os.path.join(root, ".build", "verif", "verif", "gxv")
    out = {"name": "memcheck", "coverage": {}, "violations": [], "inconclusive": [], "evaluations": 0}
    if not os.path.exists("/usr/bin/valgrind") or not os.path.exists(gxv):
        out["inconclusive"].append("valgrind or the monitor binary is missing")
        return out
    scale = layer.get("scale_quick", 3) if tier == "quick" else layer.get("scale_thorough", 20)
    budget = layer.get("budget_quick", 60) if tier == "quick" else layer.get("budget_thorough", 300)
    resdir = os.path.join(root, ".build", "results", "vg-%s-%d" % (pid, os.getpid()))
    os.makedirs(resdir, exist_ok=True)
    os.makedirs(os.path.join(root, "replays", pid), exist_ok=True)
    res = os.path.join(resdir, "out.json")
    e = dict(os.environ)
    e.update({"GXV_SCALE": str(scale), "GXV_BUDGET_S": str(budget), "GXV_VALGRIND": "1", "GXV_EXE": gxv,
              "GXV_REPLAY_DIR": os.path.join(root, "replays", pid)})
    cmd = ["valgrind", "--tool=memcheck", "--leak-check=no", "--error-exitcode=0", "--num-callers=24", "--fullpath-after=",
           "--trace-children=yes", "--trace-children-skip=/usr/*,/bin/*,/sbin/*", "--log-file=%s/vg.%%p.log" % resdir,
           gxv, pid, "--tier", "quick", "--seed", str(seed), "--out", res]
    t0 = time.time()
    try:
        p = subprocess.run(cmd, env=e, stdout=subprocess.PIPE, stderr=subprocess.PIPE, text=True,
                           timeout=budget * 8 + 600, start_new_session=True)
        rc = p.returncode
    except subprocess.TimeoutExpired:
        rc = "timeout"
    logs = [os.path.join(resdir, f) for f in os.listdir(resdir) if f.startswith("vg.")]
    contexts = 0
    procs = 0
    for lf in logs:
        txt = open(lf, errors="replace").read()
        if "ERROR SUMMARY" in txt:
            procs += 1
        for kind, site, fn, lines in _memcheck_errors(txt):
            sig = "memcheck|%s|%s" % (kind, site)
            contexts += 1
            ex = next((v for v in out["violations"] if v["signature"] == sig), None)
            if ex:
                ex["count"] += 1
                continue
            rp = os.path.join(root, "replays", pid, "memcheck-%d.txt" % (len(out["violations"]) + 1))
            open(rp, "w").write("GXV_SCALE=%s %s\n\n%s\n" % (scale, " ".join(cmd), "\n".join(lines)))
            out["violations"].append({"signature": sig, "what": "valgrind memcheck: %s in %s" % (lines[0].strip()[:120], fn),
                                      "replay": rp, "count": 1})
    doc = None
    if os.path.exists(res):
        try:
            doc = json.load(open(res))
        except Exception:
            doc = None
    if rc == "timeout":
        out["inconclusive"].append("memcheck run timed out")
    elif doc is None:
        out["inconclusive"].append("memcheck run produced no result (rc=%s): %s" % (rc, (p.stderr or "")[-300:]))
    else:
        out["evaluations"] = doc.get("evaluations", 0)
        for v in doc.get("violations", []):
            if not any(x["signature"] == v["signature"] for x in out["violations"]):
                out["violations"].append(dict(v))
    out["coverage"] = {"tool": "valgrind-3.19 memcheck (--leak-check=no, children of the monitor traced, git not)",
                       "processes_traced": procs, "error_contexts": contexts, "scale_percent": scale,
                       "evaluations_under_memcheck": out["evaluations"],
                       "distinct_under_memcheck": (doc or {}).get("distinct_nontrivial", 0), "wall_s": round(time.time() - t0, 1)}
    import shutil
    shutil.rmtree(resdir, ignore_errors=True)
    return out
