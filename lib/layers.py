"""Extra observation layers (Miri, sanitizer builds, syscall injection). Each returns
{name, coverage, evaluations, violations:[{signature, what, replay, count}], inconclusive:[...]}.
A tool failure is reported as inconclusive, never as a violation."""
import os, subprocess, json, time


def setup(root):
    return True


def run(root, pid, tier, seed, layer):
    kind = layer["kind"]
    fn = globals().get("layer_" + kind)
    if fn is None:
        return {"name": kind, "inconclusive": ["unknown layer kind %s" % kind]}
    return fn(root, pid, tier, seed, layer)
