#!/bin/bash
# usage: lib/psweep.sh <seed> <tier> <lanes> ID...   -> one summary line per check in /tmp/sweep-<seed>-<tier>.log (development helper)
SEED=$1; TIER=$2; LANES=$3; shift 3
OUT=/tmp/sweep-$SEED-$TIER.log
one() {
  id=$1
  cd /verif && VERIF_SEED=$SEED ./check $id --tier $TIER > /tmp/sweep-$id-$SEED-$TIER.out 2>&1
  rc=$?
  echo "$id rc=$rc $(tail -1 /tmp/sweep-$id-$SEED-$TIER.out) :: $(grep -c '^KNOWN-FINDING' /tmp/sweep-$id-$SEED-$TIER.out) known, $(grep -c '^VIOLATION' /tmp/sweep-$id-$SEED-$TIER.out) new, $(grep -c '^INCONCLUSIVE' /tmp/sweep-$id-$SEED-$TIER.out) inconclusive" >> $OUT
}
export -f one; export SEED TIER OUT
printf "%s\n" "$@" | xargs -P $LANES -I{} bash -c 'one {}'
