#!/bin/bash
# usage: lib/muttest.sh <patch.diff|none> <ID> [seed] [budget]   (development helper, not a registered check)
# Applies the patch to the scratch worktree $R (moved to /repo's HEAD first), builds a private copy of
# the harness against it (incremental), runs one monitor, and restores the worktree. The official way to run a
# check against a seeded change is `git -C /repo apply <patch>; ./check ID; git -C /repo checkout -- .`; this
# helper exists so that seeded changes can be tried while /repo itself is busy.
set -u
PATCH=$1; ID=$2; SEED=${3:-1}; BUDGET=${4:-120}
SLOT=${MUT_SLOT:-}; H=/tmp/mh$SLOT; R=/tmp/mutrepo$SLOT
[ -d $R ] || git -C /repo worktree add -q --detach $R HEAD
mkdir -p $H
git -C $R reset -q --hard
git -C $R checkout -q --detach "$(git -C /repo rev-parse HEAD)" 2>/dev/null
rsync -a --delete --exclude target /verif/harness/ $H/harness/
sed -i "s|\"/repo/|\"$R/|g" $H/harness/gxv/Cargo.toml $H/harness/gxv-miri/Cargo.toml
cp $R/Cargo.lock $H/harness/Cargo.lock
if [ "$PATCH" != "none" ]; then
  if ! git -C $R apply --3way "$PATCH" >/dev/null 2>&1; then
    if ! git -C $R apply "$PATCH"; then echo "PATCH DOES NOT APPLY"; exit 2; fi
  fi
fi
cd $H/harness
CARGO_NET_OFFLINE=true CARGO_TARGET_DIR=$H/target cargo build --offline --profile verif -p gxv > $H/build.log 2>&1 || { grep -E "^error" -A10 $H/build.log | head -30; echo "$ID RESULT build-failed"; git -C $R reset -q --hard; exit 2; }
mkdir -p $H/replays
GXV_REPO_PREFIX=$R/ GXV_REPLAY_DIR=$H/replays GXV_BUDGET_S=$BUDGET $H/target/verif/gxv $ID --tier quick --seed $SEED --out $H/$ID.json 2>$H/$ID.err
python3 - <<PY
import json
d=json.load(open("$H/$ID.json"))
print("$ID seed $SEED evals", d["evaluations"], "distinct", d["distinct_nontrivial"], "wall", round(d["wall_s"],1))
known=set()
for l in open("/verif/known_findings.jsonl"):
    l=l.strip()
    if l:
        k=json.loads(l)
        if k.get("status")=="known" and k["property"]=="$ID": known.add(k["signature"])
new=0
for v in d["violations"]:
    kn = v["signature"] in known
    new += 0 if kn else 1
    print("  KNOWN    " if kn else "  VIOLATION", v["signature"], "x", v["count"], "::", v["what"][:160])
print("$ID RESULT new-violations", new)
for i in d["inconclusive"]:
    print("  INCONCLUSIVE", i[:160])
PY
git -C $R reset -q --hard
