#!/bin/bash
# usage: lib/muttest.sh <worktree-with-patch-applied> <ID> [seed]   (development helper)
# Builds a private copy of the harness against the given worktree instead of /repo and runs one monitor.
set -u
WT=$1; ID=$2; SEED=${3:-1}
TAG=$(basename $WT)
H=/tmp/mh-$TAG
mkdir -p $H
rsync -a --delete --exclude target /verif/harness/ $H/harness/
sed -i "s|\"/repo/|\"$WT/|g" $H/harness/gxv/Cargo.toml $H/harness/gxv-miri/Cargo.toml
cp $WT/Cargo.lock $H/harness/Cargo.lock
cd $H/harness
CARGO_NET_OFFLINE=true CARGO_TARGET_DIR=$H/target cargo build --offline --profile verif -p gxv 2>&1 | grep -E "^error" -A10 | head -30
mkdir -p $H/replays
GXV_REPLAY_DIR=$H/replays GXV_BUDGET_S=${GXV_BUDGET_S:-120} $H/target/verif/gxv $ID --tier quick --seed $SEED --out $H/$ID.json 2>$H/$ID.err
python3 - <<PY
import json
d=json.load(open("$H/$ID.json"))
print("$ID seed $SEED evals", d["evaluations"], "distinct", d["distinct_nontrivial"], "wall", round(d["wall_s"],1))
for v in d["violations"]:
    print("  VIOLATION", v["signature"], "x", v["count"], "::", v["what"][:160])
for i in d["inconclusive"]:
    print("  INCONCLUSIVE", i[:160])
PY
