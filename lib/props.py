"""Per-property registration: level, budgets, extra layers. The monitors themselves live in
harness/gxv/src/cNN.rs; this table only tells the driver how to run and describe them."""
import json, os

ROOT = os.path.dirname(os.path.dirname(os.path.abspath(__file__)))

# id -> dict(level, technique, level_text, level_note, layers=[...], budget_quick, budget_thorough, min_distinct)
PROPS = {}


def P(pid, technique, level_text, level_note, level="exploration", layers=(), bq=60, bt=300, min_distinct=2, **kw):
    PROPS[pid] = dict(level=level, technique=technique, level_text=level_text, level_note=level_note,
                      layers=list(layers), budget_quick=bq, budget_thorough=bt, min_distinct=min_distinct, **kw)


def budget(pid, tier):
    p = PROPS[pid]
    return p["budget_quick"] if tier == "quick" else p["budget_thorough"]



for _f in sorted(os.listdir(os.path.join(ROOT, "lib", "props.d"))):
    if _f.endswith(".json"):
        _d = json.load(open(os.path.join(ROOT, "lib", "props.d", _f)))
        _pid = _d.pop("id")
        P(_pid, _d.pop("technique"), _d.pop("level_text"), _d.pop("level_note"), **_d)
