"""Per-property registration: level, budgets, extra layers. The monitors themselves live in
harness/gxv/src/cNN.rs; this table only tells the driver how to run and describe them."""
import json, os

ROOT = os.path.dirname(os.path.dirname(os.path.abspath(__file__)))

# id -> dict(level, technique, level_text, level_note, layers=[...], budget_quick, budget_thorough, min_distinct)
PROPS = {}


def P(pid, technique, level_text, level_note, level="exploration", layers=(), bq=60, bt=600, min_distinct=2, **kw):
    PROPS[pid] = dict(level=level, technique=technique, level_text=level_text, level_note=level_note,
                      layers=list(layers), budget_quick=bq, budget_thorough=bt, min_distinct=min_distinct, **kw)


def budget(pid, tier):
    p = PROPS[pid]
    return p["budget_quick"] if tier == "quick" else p["budget_thorough"]


GIT = "the installed git 2.39.5 is the reference for git's behaviour"

P("C05", "runtime monitor: string-prefix reference model over generated ids/prefixes; Miri on the same workload",
  "Seeded exploration: every generated (id, prefix length, candidate differing at one nibble) and every generated hex-ish string is run through the real gix-hash code and compared with a lower-case-hex string model; held only on the cases observed.",
  "Trusts the 20-line string model and Rust's std string comparison.", min_distinct=200)

P("C01", "runtime monitor: size/round-trip/id oracles over generated object values (boundary-biased times), independent SHA-1 and git hash-object, loose-store header read-back",
  "Seeded exploration of owned Commit/Tag/Tree/Blob values: for each, size()==bytes written, loose header, decode∘encode on the round-trippable sub-domain, id == independent SHA-1 (every case) == git hash-object --literally (sampled), and the loose file's inflated header. Held on the values generated only.",
  "Trusts sha1_smol, flate2's inflater and git 2.39.5 hash-object; decode equality is taken modulo the trailing newline of multi-line header values (both forms encode identically).", min_distinct=500)
