#!/usr/bin/env python3
"""Builds seeded/<id>/meta.json from the seeder's meta, the integrator's verify.sh re-run log and the
muttest logs, and regenerates DESIGN.md section 10.6. Inputs (development artefacts, copied from /tmp): seeded/logs/verify-all*.log,
seeded/logs/muttest-batch*.log, seeded/notes.json (manual notes: strengthening done, official-path confirmation)."""
import json, os, re, glob
ROOT = os.path.dirname(os.path.dirname(os.path.abspath(__file__)))
notes_p = os.path.join(ROOT, "seeded", "notes.json")
notes = json.load(open(notes_p)) if os.path.exists(notes_p) else {}
verify = {}
for f in sorted(glob.glob(os.path.join(ROOT, "seeded", "logs", "verify-all*.log")) + []):
    cur = None
    for line in open(f, errors="replace"):
        m = re.match(r"=== (\S+) verify result: (.*)", line)
        if m:
            verify.setdefault(m.group(1), []).append(m.group(2).strip()[-200:]); cur = None; continue
        m = re.match(r"=== (\S+) verify", line)
        if m:
            cur = m.group(1); verify.setdefault(cur, []); continue
        if cur and ("PASS" in line or "FAIL" in line):
            verify[cur].append(line.strip()[:160])
known = {}
for l in open(os.path.join(ROOT, "known_findings.jsonl")):
    l = l.strip()
    if l:
        k = json.loads(l)
        if k.get("status") == "known":
            known.setdefault(k["property"], set()).add(k["signature"])
checks = {}
for f in sorted(glob.glob(os.path.join(ROOT, "seeded", "logs", "muttest-batch*.log")), key=lambda x: int(re.findall(r"\d+", x)[-1])):
    cur = None
    for line in open(f, errors="replace"):
        m = re.match(r"=== (\S+) check", line)
        if m:
            cur = m.group(1); checks[cur] = {"summary": "", "violations": [], "inconclusive": 0}; continue
        if not cur: continue
        if line.startswith(cur + " seed"):
            checks[cur]["summary"] = line.strip()
        elif "RESULT build-failed" in line or "PATCH DOES NOT APPLY" in line:
            del checks[cur]; cur = None
        elif line.strip().startswith("VIOLATION"):
            sig = line.strip()[10:].split(" ::")[0][:200]
            if re.sub(r" x \d+$", "", sig) not in known.get(cur[:3], set()):
                checks[cur]["violations"].append(sig)
        elif line.strip().startswith("INCONCLUSIVE"):
            checks[cur]["inconclusive"] += 1
rows = []
for d in sorted(os.listdir(os.path.join(ROOT, "seeded"))):
    p = os.path.join(ROOT, "seeded", d)
    sm = os.path.join(p, "seeder-meta.json")
    if not os.path.isdir(p) or not os.path.exists(sm):
        continue
    try:
        s = json.load(open(sm))
    except Exception:
        s = {"summary": open(sm, errors="replace").read()[:500]}
    prop = s.get("property", d)[:3] if isinstance(s.get("property"), str) else d
    prop = d[:3]
    v = verify.get(d, [])
    vpass = bool(v) and ("PASS" in v[-1] or "succeeded" in v[-1] or "verified" in v[-1]) or bool(v) and any(("PASS" in x or "succeeded" in x or "verified" in x or "pass with the patch" in x) for x in v[-2:]) and not any(x.startswith("FAIL:") for x in v)
    c = checks.get(d, {})
    n = notes.get(d, {})
    caught = bool(c.get("violations")) if (c and c.get("summary")) else None
    meta = {
        "property": prop,
        "summary": s.get("summary", ""),
        "needs_to_manifest": s.get("needs", s.get("needs_to_manifest", "")),
        "crates": s.get("crates", []),
        "seeder_tests_run": s.get("tests_run", []),
        "integrator": {
            "verify_sh_rerun": "PASS" if vpass else ("not re-run yet" if not v else "see lines"),
            "verify_sh_lines": v[-4:],
            "check_run": "lib/muttest.sh seeded/%s/patch.diff %s 1 (private harness copy against a scratch worktree with the patch applied; quick tier, seed 1)" % (d, prop),
            "check_result": c.get("summary", "not run yet"),
            "caught": caught,
            "caught_by_signatures": c.get("violations", []),
            "notes": n.get("notes", ""),
        },
    }
    json.dump(meta, open(os.path.join(p, "meta.json"), "w"), indent=1)
    rows.append((d, prop, meta))
out = ["### 10.6 Seeded changes (from independent sub-agents) and which check catches them", "",
       "Each directory `seeded/<id>/` holds `patch.diff`, the seeder's demonstration (`demo/`, `verify.sh`) and `meta.json`.",
       "Every change compiles, passes the existing tests of the crates it touches, and its demonstration fails with and passes",
       "without the patch (`verify.sh` re-run by the integrator in the seeder's scratch worktree).",
       "The seeders saw only the property text and their own worktree. `caught by` lists up to three of the new (not `known`) signatures",
       "the quick tier printed at seed 1 with the patch applied (`lib/muttest.sh`, logs under `seeded/logs/`).",
       "Monitors that missed their seeded change at first and were strengthened (what was added is in the notes column): "
       + ", ".join(sorted(k for k, v in notes.items() if "missed" in v.get("notes", ""))) + ".",
       "Patches that had to be ported because later `fix:` commits touched their context: C12, C20 (`patch.orig.diff` is the original).",
       "`lib/muttest.sh` applies the patch to a scratch worktree of /repo's HEAD and builds a private copy of the harness against it - the",
       "same monitors, oracles and known-findings filter as `git -C /repo apply <patch>; ./check CNN; git -C /repo checkout -- .`, which was",
       "not used because /repo was busy with sweeps and `fix:` work for most of the session.", "",
       "| seeded | property | what it needs to manifest | caught by (quick, seed 1) | notes |", "|---|---|---|---|---|"]
esc = lambda s: str(s).replace("|", "\\|").replace("\n", " ")
for d, prop, m in rows:
    i = m["integrator"]
    cb = "; ".join("`%s`" % x for x in i["caught_by_signatures"][:3]) or ("**missed**" if i["caught"] is False else "pending")
    out.append("| %s | %s | %s | %s | %s |" % (d, prop, esc(m["needs_to_manifest"])[:260], esc(cb), esc(i["notes"])))
text = "\n".join(out) + "\n"
p = os.path.join(ROOT, "DESIGN.md")
s = open(p).read()
start = s.find("### 10.6 Seeded changes")
if start >= 0:
    end = s.find("\n### 10.7", start)
    end = len(s) if end < 0 else end
    s = s[:start] + text + s[end:]
else:
    s = s.rstrip("\n") + "\n\n" + text
open(p, "w").write(s)
print("seeded:", len(rows), "caught:", sum(1 for r in rows if r[2]["integrator"]["caught"]), "missed:", sum(1 for r in rows if r[2]["integrator"]["caught"] is False))
