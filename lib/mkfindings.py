#!/usr/bin/env python3
"""Regenerates section 10.4 of DESIGN.md (findings table) from known_findings.jsonl."""
import json, os, re
ROOT = os.path.dirname(os.path.dirname(os.path.abspath(__file__)))
rows = [json.loads(l) for l in open(os.path.join(ROOT, "known_findings.jsonl")) if l.strip() and not l.startswith("#")]
rows.sort(key=lambda r: (r["property"], r["status"], r["signature"]))
out = ["### 10.4 Genuine defects found on the unchanged tree", "",
       "Generated from `known_findings.jsonl` by `lib/mkfindings.py`. `fixed` = repaired by the named `fix:` commit in /repo",
       "(the check is silent on the repaired tree and reports the signature again if it returns); `known` = recorded, not",
       "repaired (reason in 10.4.1); the check prints `KNOWN-FINDING` for exactly that signature and still alarms on any other.", "",
       "| property | status | signature | what fails | commit |", "|---|---|---|---|---|"]
esc = lambda s: s.replace("|", "\\|")
for r in rows:
    out.append("| %s | %s | `%s` | %s | %s |" % (r["property"], r["status"], esc(r["signature"]), esc(r["what"]), r.get("commit", "")))
nf = sum(1 for r in rows if r["status"] == "fixed")
nk = sum(1 for r in rows if r["status"] == "known")
out += ["", "%d fixed, %d known." % (nf, nk), ""]
text = "\n".join(out)
p = os.path.join(ROOT, "DESIGN.md")
s = open(p).read()
start = s.find("### 10.4 Genuine defects")
if start >= 0:
    end = s.find("\n### 10.4.1", start)
    if end < 0:
        end = s.find("\n### 10.5", start)
    if end < 0:
        end = len(s)
    s = s[:start] + text + s[end:]
else:
    s = s.rstrip("\n") + "\n\n" + text
open(p, "w").write(s)
print("findings:", nf, "fixed", nk, "known")
