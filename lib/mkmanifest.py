#!/usr/bin/env python3
"""Regenerates MANIFEST.json from lib/props.py (checks) and lib/not_applicable.json."""
import json, os, sys
ROOT = os.path.dirname(os.path.dirname(os.path.abspath(__file__)))
sys.path.insert(0, os.path.join(ROOT, "lib"))
import props

all_ids = [json.loads(l)["id"] for l in open(os.path.join(ROOT, "properties.jsonl"))]
na_path = os.path.join(ROOT, "lib", "not_applicable.json")
na_reasons = json.load(open(na_path)) if os.path.exists(na_path) else {}
baseline = json.load(open("/root/.vp/BASELINE.json"))["cmd"] if os.path.exists("/root/.vp/BASELINE.json") else ""
hooks_path = os.path.join(ROOT, "lib", "hooks.json")
hooks = json.load(open(hooks_path)) if os.path.exists(hooks_path) else {"source_commits": []}

ready_path = os.path.join(ROOT, "lib", "ready.txt")
ready = set(open(ready_path).read().split()) if os.path.exists(ready_path) else set(props.PROPS)
checks = []
for pid in all_ids:
    if pid not in props.PROPS or pid not in ready:
        continue
    p = props.PROPS[pid]
    checks.append({
        "property_id": pid,
        "quick_cmd": "./check %s --tier quick" % pid,
        "thorough_cmd": "./check %s --tier thorough" % pid,
        "evidence_file": "evidence/%s.json" % pid,
        "replay_cmd_template": "./check %s --replay {path}" % pid,
        "engine": "gxv",
        "level_claimed": {"category": p["level"], "text": p["level_text"], "design_ref": "DESIGN.md section 3, %s" % pid},
        "level_note": p["level_note"],
        "technique": p["technique"],
    })
na = []
for pid in all_ids:
    if pid in props.PROPS and pid not in ready:
        na.append({"property_id": pid, "reason": na_reasons.get(pid, "monitor built (harness/gxv/src/%s.rs) but not claimed yet: triage of what it reports on the unchanged tree (fix vs known finding) is still in progress" % pid.lower())})
    elif pid not in props.PROPS:
        na.append({"property_id": pid, "reason": na_reasons.get(pid, "monitor not built yet in this round (runtime monitoring applies; see DESIGN.md section 3)")})
m = {
    "version": 1,
    "setup_cmd": "./check --setup",
    "hooks": {
        "guard": "cargo feature `verif-hooks` (off by default) on gix-odb / gix-pack",
        "enable": "the harness workspace (harness/gxv/Cargo.toml) enables the feature on its path dependencies on /repo; plain builds and the pinned suite never see it",
        "baseline_off_cmd": baseline,
        "source_commits": hooks.get("source_commits", []),
        "add_only": True,
    },
    "engines": [
        {"name": "gxv", "path": "harness/gxv", "serves_properties": [c["property_id"] for c in checks],
         "kind_free_text": "Rust monitor binary linked against /repo's crates by path (profile with debug assertions and overflow checks on); seeded workloads, reference models, git 2.39.5 differential oracle, child-process isolation for crash/hang classes"},
        {"name": "check", "path": "check", "serves_properties": [c["property_id"] for c in checks],
         "kind_free_text": "python driver: rebuilds the monitors against /repo's working tree, runs them under a watchdog, runs extra layers (Miri, sanitizer builds, strace injection), filters known findings by exact signature, writes evidence"},
    ],
    "checks": checks,
    "not_applicable": na,
    "notes": "All checks are runtime monitors: verdicts are 'held on the executions observed'. See DESIGN.md.",
}
json.dump(m, open(os.path.join(ROOT, "MANIFEST.json"), "w"), indent=1)
print("checks:", len(checks), "not claimed:", len(na))
