#!/bin/bash
# usage: lib/sweep.sh <seed> <tier> ID...   -> one summary line per check in /tmp/sweep-<seed>-<tier>.log
SEED=$1; TIER=$2; shift 2
OUT=/tmp/sweep-$SEED-$TIER.log
for id in "$@"; do
  cd /verif && VERIF_SEED=$SEED ./check $id --tier $TIER > /tmp/sweep-$id-$SEED-$TIER.out 2>&1
  rc=$?
  echo "$id rc=$rc $(tail -1 /tmp/sweep-$id-$SEED-$TIER.out) :: $(grep -c '^KNOWN-FINDING' /tmp/sweep-$id-$SEED-$TIER.out) known, $(grep -c '^VIOLATION' /tmp/sweep-$id-$SEED-$TIER.out) new, $(grep -c '^INCONCLUSIVE' /tmp/sweep-$id-$SEED-$TIER.out) inconclusive" >> $OUT
done
