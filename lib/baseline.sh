#!/bin/bash
# Runs the pinned suite (BASELINE.json command, hooks off = default features) and compares with stable_pass.
set -u
cd /repo
export CARGO_TARGET_DIR=${CARGO_TARGET_DIR:-/repo/target}
cargo nextest run --workspace --no-fail-fast --tool-config-file pb:/w/lib/nextest.toml --profile pb --test-threads 8 --offline > /tmp/baseline-run.log 2>&1
J=$(find $CARGO_TARGET_DIR/nextest/pb -name junit.xml | head -1)
python3 /w/lib/parse_tests.py --kind junit --glob "$J" --out /tmp/baseline-parsed.json
python3 - <<'PY'
import json
b=json.load(open('/root/.vp/BASELINE.json'))
try:
    r=json.load(open('/tmp/baseline-parsed.json'))
except Exception as e:
    print("cannot parse result", e); raise SystemExit(2)
passed=set(r.get('passed',[])); failed=set(r.get('failed',[]))
stable=set(b['stable_pass'])
missing=sorted(stable-passed)
print("passed", len(passed), "failed", len(failed), "stable", len(stable), "stable-not-passed", len(missing))
for m in missing[:60]: print("  NOT PASSED:", m, "(failed)" if m in failed else "(absent)")
PY
